#!/usr/bin/env python3
"""Development aid: completes seeded/<id>/meta.json of the session-3 changes from tools/round8_10_desc.json."""
import json, os
here = os.path.dirname(os.path.abspath(__file__))
d = json.load(open(here + "/round8_10_desc.json"))
for k, (what, needs) in d.items():
    mp = f"{here}/../seeded/{k}/meta.json"
    if not os.path.exists(mp):
        print("missing", k); continue
    m = json.load(open(mp))
    m["what_it_does"] = what
    m["needs_to_manifest"] = needs + " — the exact trigger is described in README.agent.md next to this file"
    m["source"] = "written by an independent sub-agent that saw only the property text and a scratch worktree of /repo (nothing from /verif)"
    m["what_i_ran"] = ["tools/confirm_seeded.sh (scratch worktree: patch applies, 45 existing tests pass with it, demo fails with it and passes without)",
                       f"tools/run_seeded.sh {k} (git -C /repo apply patch.diff; ./check <property> quick; git -C /repo checkout -- .)"]
    json.dump(m, open(mp, "w"), indent=1, ensure_ascii=False)
