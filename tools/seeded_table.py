#!/usr/bin/env python3
"""Prints the Appendix A table of DESIGN.md from seeded/*/meta.json (detection results) and the short descriptions below."""
import json, glob, os
DESC = {
 "C09-a1": "bbox y-extent ignores the first vertex if it is the strict top → shortcut wrongly taken near an apex",
 "C09-a2": "difference with ≥4 subject parts none reaching the clip: parts lost in a rewritten trivial path",
 "C09-a3": "new early return for an empty clip returns the subject for every operation",
 "C09-b1": "clip edges right of the subject skipped *before* bbox accumulation → clip box too small",
 "C09-b2": "sweep stops when one operand has nothing open (multi-part operands with a gap)",
 "C09-b3": "segments ending left of the relevant box ignored → wrong in/out parity",
 "C09-c1": "absolute-epsilon tolerance in the disjointness test (intersection only): shows at tiny scales / one-ulp overlaps",
 "C09-c2": "'covering rectangle' fast path for a Polygon right-hand side forgets that the rectangle may have a hole",
 "C09-c3": "shortcut extended to 'operand lies inside the box of a hole of the other' (wrong for non-rectangular holes / islands)",
 "C09-d1": "difference: clip edges right of the subject not queued, dropped before box accumulation",
 "C09-d2": "clip polygons that 'miss' the subject box are skipped, off-by-one drops the ring's first vertex from the test",
 "C09-d3": "clip edges entirely above the subject box not queued → in/out parity of edges above them flips",
 "C09-e1": 'far-part pre-filter in the mixed trait impls (≥ 8 subject parts): subject parts disjoint from the clip polygon are lost under difference',
 "C09-e2": "clip edges right of the sweep's end skipped before box accumulation (wedge entering from the far right)",
 "C09-e3": 'disjointness test rewritten with widths: rounds wrongly when a far part sits where float spacing ≈ feature size',
 "C12-a1": "`processed` set becomes a thread-local cleared only at function end; stale after a panic inside `connect_edges`",
 "C12-a2": "operation kept in a process-wide `static AtomicU8`",
 "C12-a3": "per-thread intersection memo keyed without the float type",
 "C12-b1": "pointer-address tie-break in `SweepEvent::cmp`",
 "C12-b2": "result events collected through a pointer-keyed `HashMap`",
 "C12-b3": "`processed` becomes a never-cleared per-thread `Vec<u16>` of stamps",
 "C12-c1": "epoch-stamped per-thread `processed` table, wrap wipes only the current prefix (period 65535, needs a lead-in call)",
 "C12-c2": "per-thread 256-slot memo for `intersection()` keyed without the float type",
 "C12-c3": "lazily built process-global lookup table with a racy three-state flag (first-use race)",
 "C12-d1": "`processed` becomes a process-wide stamp table behind an `RwLock`: overlapping ring-assembly phases overwrite each other's marks",
 "C12-d2": "per-thread `Vec<bool>` scratch reset only at the end of the call: stale after a panic inside `connect_edges`",
 "C12-d3": "per-thread visited table with `u16` epochs, wipe on wrap clears only the current slice",
 "C12-e1": 'per-thread `intersection()` memo keyed without the float type (f32 call then f64 call)',
 "C12-e2": 'sweep limit kept in a thread-local, not cleared on unwind: next union/xor on the thread ignores crossings beyond it',
 "C12-e3": 'integer-grid fast path for `signed_area` behind a thread-local flag that the bbox shortcut return forgets to reset',
 "C17-a1": "`min`/`max` rotate the extreme to the root and drop a subtree",
 "C17-a2": "`next`/`prev` return `None` when the root has no right/left subtree",
 "C17-a3": "`splay` capped at 64 steps",
 "C17-b1": "`extend` fast path linking above the root without splaying",
 "C17-b2": "zig-zig swaps node *contents* instead of boxes",
 "C17-b3": "`rotate_left` slip in the backward iterator",
 "C17-c1": "bulk-load fast path in `extend` (empty tree, ≥16 items) keeps the first of duplicate keys' values",
 "C17-c2": "`insert` of an equal key replaces the stored key object",
 "C17-c3": "`IntoIter` collects through a recursive in-order walk (stack, i.e. C18)",
 "C17-d1": "content swap instead of pointer swap in the `Less` zig-zig rotation",
 "C17-d2": "raw-pointer `min`/`max` cache with one missed invalidation (dangling reference)",
 "C17-d3": "`drop_tree` walks only the left spine; right subtrees drop recursively (stack, i.e. C18)",
 "C18-a1": "`drop_tree` recurses at two-child nodes (comb shape after one query at the minimum)",
 "C18-a2": "recursive drop below 2¹⁷ remaining nodes",
 "C18-a3": "`min`/`max` through a recursive helper",
 "C18-b1": "`prev_in_result` becomes a strong `Rc` chain released recursively",
 "C18-b2": "`remove` joins halves recursively",
 "C18-b3": "`next`/`prev` through recursive helpers",
 "C18-c1": "`drop_tree` skips the rotation when the left child has no right subtree (comb after a far-end query)",
 "C18-c2": "`remove` joins the subtrees with a recursive `join` (right chain, removal at the far end; staircase operation)",
 "C18-c3": "trees of ≤ 65 536 nodes released by the recursive drop glue (size window, small stack, unoptimised frames)",
 "C18-d1": "`prev_in_result` becomes an owning link: dropping the events recurses along a bottom-up chain",
 "C18-d2": "`get_next_pos` rewritten recursively (vertex shared by tens of thousands of result edges)",
 "C18-d3": "union-find skip table with recursive path-compressing find in `connect_edges`",
}
print("| id | what the change does | caught by (quick) | exit | s |")
print("|---|---|---|---|---|")
for d in sorted(glob.glob(os.path.dirname(os.path.abspath(__file__)) + "/../seeded/*/")):
    m = json.load(open(d + "meta.json"))
    c = m["checks_run"][-1]
    fv = c["first_violation"]
    cls = fv.split("detail=")[0].replace("violation class=", "").replace("violation ", "").strip()
    if "Miri" in fv:
        cls = "Miri engine" + (" + native" if c["violation_lines"] > 1 else "")
    print(f"| {m['id']} | {DESC.get(m['id'], '')} | {c['cmd'].split()[1]} `{cls}` | {c['exit']} | {c['seconds']} |")
