#!/usr/bin/env python3
"""Writes MANIFEST.json (single source: this file) and validates it and the evidence files."""
import json, sys, os, subprocess
HOOK_COMMITS = ["4b7768b", "a5ea50e", "c993bd6", "7d718d1", "89b74a3"]  # fix commit 3642904 is unguarded, see known_findings.json
NA_REASON = {
 "C01": "pure function of (A,B,op): deciding it is input search against a geometric oracle; no schedule, clock, fault or history to simulate (DESIGN.md section 7)",
 "C02": "ring grouping is a pure function of the input; no seam (section 7)",
 "C03": "whether a call panics or loops depends on the input alone; its one environment-dependent clause (stack exhaustion after an early sweep exit) is decided under C18 (section 7)",
 "C04": "provenance of output coordinates is a pure function of the input (section 7)",
 "C05": "relation among four pure calls on the same input (section 7)",
 "C06": "algebraic laws over inputs; the shortcut path for empty/disjoint operands is covered as a fault point under C09 (section 7)",
 "C07": "invariance under re-writing the input; no seam distinguishes representations (section 7)",
 "C08": "covariance under transforming the input (section 7)",
 "C10": "f32/f64 are two instantiations of a pure function (section 7)",
 "C11": "composition of pure calls; the statelessness it leans on is C12 (section 7)",
 "C13": "pure function of the input observed at an internal stage (section 7)",
 "C14": "pure function of the input observed at an internal stage (section 7)",
 "C15": "relation over pairs/triples of values (section 7)",
 "C16": "pure function of two segments (section 7)",
}
CHECKS = {
 "C17": dict(
   engine="sim",
   technique="deterministic simulation: seeded operation histories vs reference sorted map, held references, cancelled consumption, simulated heap (placement/poison), thread migration; Miri (Tree Borrows) as second simulator",
   level=dict(category="exploration", design_ref="DESIGN.md section 5",
     text="Seeded search over operation histories of the real SplayTree/SplaySet with a BTreeMap reference model checked after every operation, references kept across self-restructuring lookups, partially consumed iterators and a poisoning simulated heap. Sampling, not enumeration: evidence reports histories, distinct histories and distinct (shape,key set) states reached."),
   note="Trusts std BTreeMap as the reference, the seeded comparator being a consistent total order, and that sampled histories are representative; not exhaustive over tree shapes."),
 "C18": dict(
   engine="sim",
   technique="resource-fault simulation: simulator-chosen stack budget and tree-shaping history, child-process containment, in-process stack-depth probe",
   level=dict(category="fault_enumeration", design_ref="DESIGN.md section 6",
     text="Every scenario of a fixed grid (container kind x insertion-order shape x size x first operation at either end x build mode (insert / one extend call / extend batches) x teardown mode incl. partial consumption x stack budget x build profile; eight families of large Boolean operations) plus seeded ones runs in a child process whose exit status is the oracle; an in-process probe bounds stack depth during comparator and element-drop callbacks."),
   note="Stack budgets are the two the property names (8 MiB, 2 MiB); children built optimised and with opt-level 0; sizes 1e3..3e6 keys, operations up to 1.6e6 edges (comb, transposed comb, overlap row, sieve of holes, staircase, nested rings, grid, bow tie)."),
 "C09": dict(
   engine="sim",
   technique="buggify differential: the bounding-box shortcut and the early sweep exit are cooperative fault points the simulator switches off (boxes widened at their source); every configuration compared with the all-slow-path reference execution; fast paths the switches cannot reach are detected through the sweep seams and checked against a small executable region model",
   level=dict(category="exploration", design_ref="DESIGN.md section 3",
     text="Second clause of C09 (results agree whether or not the bbox shortcut / early sweep exit is taken) on four exact operand families (rectangles with holes/islands/frames, orthogonal histograms, non-crossing lattice polygons incl. nested, octilinear crossing polygons), all trait pairings, f32/f64, power-of-two scales 2^-200..2^200: bit-identity when the shortcut is not taken, region equality (exact on rectilinear results, sampled otherwise) when it is; an unknown exit or pruning is only reported when the region model says the result is wrong."),
   note="Seeded sampling. Inexact (crossing lattice) families are excluded from exploration because the pinned sweep is unstable there (KF-2 corpus replayed as known findings). First clause of C09 (far part relation between two inputs) has no seam and is not claimed as such; far parts are the stimulus."),
 "C12": dict(
   engine="sim",
   technique="deterministic simulation: simulated client threads (real parked OS threads) under a seeded baton scheduler with scheduling points at call boundaries, sweep events and ring-assembly steps; simulated heap (placement/fill/poison), owned std hash keys (getrandom), injected cancellation, thread retirement, soak histories; reference = same call in isolation; Miri many-seeds (Tree Borrows) as second simulator",
   level=dict(category="exploration", design_ref="DESIGN.md section 4",
     text="Seeded search over call histories, thread placements, event-level interleavings, allocation placement/contents, hash keys and cancellations; every completed call must equal bit for bit its isolated reference and no operand may change."),
   note="Interleaving is simulated one-thread-at-a-time at call, sweep-event and ring-assembly-step granularity natively (falls back to call granularity, and says so, if a client blocks on a lock the simulator does not own); instruction-level preemption, data races and first-use races only under Miri on tiny inputs."),
}
def main():
    claimed = [a for a in sys.argv[1:] if a.startswith("C")]
    checks = []
    for pid in claimed:
        c = CHECKS[pid]
        checks.append(dict(property_id=pid, quick_cmd=f"./check {pid} quick", thorough_cmd=f"./check {pid} thorough",
            evidence_file=f"evidence/{pid}.json", replay_cmd_template="./check replay {path}", engine=c["engine"],
            level_claimed=c["level"], level_note=c["note"], technique=c["technique"]))
    na = [dict(property_id=k, reason=v) for k, v in NA_REASON.items()]
    for pid in CHECKS:
        if pid not in claimed:
            na.append(dict(property_id=pid, reason="check under construction in this commit; not claimed yet"))
    na.sort(key=lambda x: x["property_id"])
    m = dict(version=1,
        setup_cmd="cd sim && CARGO_NET_OFFLINE=true cargo build --release --offline && CARGO_NET_OFFLINE=true cargo build --profile stackdbg --offline && cd ../miri && (cargo +nightly miri setup >/dev/null 2>&1; MIRIFLAGS=-Zmiri-tree-borrows cargo +nightly miri run --offline -- c17 1 >/dev/null 2>&1; true)",
        hooks=dict(guard="cargo feature verif-hooks (crate geo-booleanop)", enable="sim/Cargo.toml depends on geo-booleanop = { path = \"/repo/lib\", features = [\"verif-hooks\"] }",
            baseline_off_cmd="cd /repo && cargo test --workspace --no-fail-fast --offline", source_commits=HOOK_COMMITS, add_only=True),
        engines=[dict(name="sim", path="sim", serves_properties=sorted(CHECKS), kind_free_text="Rust binary: seeded simulator (worlds, simulated heap, getrandom interposition, baton scheduler, child-process stack simulation), rebuilt against /repo by every check"),
                 dict(name="miri", path="miri", serves_properties=["C12", "C17"], kind_free_text="scenario crate run under cargo +nightly miri (Tree Borrows, many seeds) by the sim parent process: second deterministic simulator for instruction-level preemption, data races and reference validity")],
        checks=checks, not_applicable=na,
        notes="Unguarded repair of a genuine defect in /repo: 3642904 (fix: iterative splay teardown, KF-1 in known_findings.json). Technique family: deterministic simulation with fault injection. 14 properties are pure functions of their input and are listed not_applicable with reasons (DESIGN.md sections 0 and 7).")
    json.dump(m, open("MANIFEST.json", "w"), indent=1)
    try:
        import jsonschema
        jsonschema.validate(m, json.load(open("/root/.vp/MANIFEST.schema.json")))
        es = json.load(open("/root/.vp/EVIDENCE.schema.json"))
        for pid in claimed:
            p = f"evidence/{pid}.json"
            if os.path.exists(p):
                jsonschema.validate(json.load(open(p)), es); print("evidence ok", p)
        print("manifest ok")
    except ImportError:
        print("jsonschema not importable here; run with python3-vt")
main()
