#!/bin/bash
# Development aid: confirm a candidate seeded change in its scratch worktree and file it under /verif/seeded/<id>/.
# usage: confirm_seeded.sh <worktree> <k> <seeded id> <property> <demo test name> [cargo test extra args]
# Confirms: patch applies to HEAD; workspace tests pass with it; demo fails with it; demo passes without it.
set -u
wt=$1; k=$2; id=$3; prop=$4; demo=$5; shift 5; extra="$*"
out=$wt/OUT/$k
cd $wt || exit 2
git checkout -q -- . && git clean -fdq -e OUT -e target
git apply --check $out/patch.diff || { echo "PATCH DOES NOT APPLY"; exit 1; }
# existing suite with the change (demo not yet present)
git apply $out/patch.diff
cargo test --workspace --offline --no-fail-fast > /tmp/confirm.$$.suite 2>&1; rc_suite=$?
npass=$(grep -E "^test result: ok" /tmp/confirm.$$.suite | sed -E 's/.* ([0-9]+) passed.*/\1/' | paste -sd+ | bc)
mkdir -p ${DEMO_DIR:-lib/tests} && cp $out/demo.rs ${DEMO_DIR:-lib/tests}/$demo.rs
cargo test -p ${PKG:-geo-booleanop} --offline --test $demo $extra > /tmp/confirm.$$.mut 2>&1; rc_mut=$?
# without the change
git apply -R $out/patch.diff
cargo test -p ${PKG:-geo-booleanop} --offline --test $demo $extra > /tmp/confirm.$$.clean 2>&1; rc_clean=$?
git checkout -q -- . && git clean -fdq -e OUT -e target
echo "demo without change: rc=$rc_clean ; suite with change: rc=$rc_suite passed=$npass (includes demo) ; demo with change: rc=$rc_mut"
if [ $rc_clean -eq 0 ] && [ $rc_mut -ne 0 ] && [ $rc_suite -eq 0 ] && [ "$npass" = "45" ]; then
  d=/verif/seeded/$id; mkdir -p $d
  cp $out/patch.diff $d/patch.diff; cp $out/demo.rs $d/demo.rs; cp $out/README.md $d/README.agent.md
  tail -5 /tmp/confirm.$$.mut > $d/demo_with_change.tail.txt
  echo "{\"id\": \"$id\", \"property\": \"$prop\", \"demo\": \"place demo.rs at lib/tests/$demo.rs; cargo test -p ${PKG:-geo-booleanop} --offline --test $demo $extra\", \"confirmed\": {\"demo_without_change_rc\": $rc_clean, \"demo_with_change_rc\": $rc_mut, \"existing_tests_passed_with_change\": $npass, \"existing_suite_rc_with_change\": $rc_suite}}" > $d/meta.partial.json
  echo CONFIRMED $id
else
  echo NOT-CONFIRMED $id
fi
rm -f /tmp/confirm.$$.*
