#!/usr/bin/env python3
"""Development aid (not a registered check): apply one textual mutation to /repo, run a check, restore /repo.
usage: mutate.py <file under /repo> <old> <new> -- <command...>"""
import sys, subprocess
i = sys.argv.index("--")
f, old, new = sys.argv[1:4]
cmd = sys.argv[i+1:]
assert subprocess.run(["git", "-C", "/repo", "status", "--porcelain", "--untracked-files=no"], capture_output=True, text=True).stdout.strip() == "", "/repo not clean"
p = "/repo/" + f
s = open(p).read()
assert s.count(old) >= 1, "pattern not found"
open(p, "w").write(s.replace(old, new, 1))
try:
    r = subprocess.run(cmd, capture_output=True, text=True)
    lines = (r.stdout + r.stderr).strip().splitlines()
    keep = [l for l in lines if l.startswith(("VIOLATION", "violation", "HARNESS", "KNOWN"))][:4] + lines[-1:]
    print("exit", r.returncode); print("\n".join(keep))
finally:
    subprocess.run(["git", "-C", "/repo", "checkout", "--", "."])
