#!/bin/bash
# Development aid: apply /verif/seeded/<id>/patch.diff to /repo, run the quick check of its property, undo, record in meta.json.
# usage: run_seeded.sh <id> [tier]
set -u
id=$1; tier=${2:-quick}
d=/verif/seeded/$id
prop=${PROP_OVERRIDE:-}; [ -n "$prop" ] || prop=$(python3 -c "import json;print(json.load(open('$d/meta.partial.json'))['property'])" 2>/dev/null || python3 -c "import json;print(json.load(open('$d/meta.json'))['property'])")
test -z "$(git -C /repo status --porcelain --untracked-files=no)" || { echo "/repo not clean"; exit 2; }
git -C /repo apply $d/patch.diff || exit 2
cd /verif
cp evidence/$prop.json /tmp/ev.$$.json
start=$(date +%s)
./check $prop $tier > /tmp/seeded.$$.log 2>&1; rc=$?
end=$(date +%s)
git -C /repo checkout -- .
cp /tmp/ev.$$.json evidence/$prop.json; rm -f /tmp/ev.$$.json
first=$(grep -m1 "^violation" /tmp/seeded.$$.log | cut -c1-400)
nviol=$(grep -c "^VIOLATION" /tmp/seeded.$$.log)
python3 - "$d" "$prop" "$tier" "$rc" "$nviol" "$((end-start))" "$first" <<'PY'
import json,sys,os
d,prop,tier,rc,nviol,secs,first=sys.argv[1:8]
mp=d+'/meta.json'
m=json.load(open(mp)) if os.path.exists(mp) else json.load(open(d+'/meta.partial.json'))
m.setdefault('checks_run',[])
m['checks_run']=[c for c in m['checks_run'] if not (c['cmd']==f'./check {prop} {tier}')]
m['checks_run'].append({'cmd':f'./check {prop} {tier}','exit':int(rc),'violation_lines':int(nviol),'seconds':int(secs),'first_violation':first})
m['detected']=any(c['exit']==1 for c in m['checks_run'])
json.dump(m,open(mp,'w'),indent=1)
PY
rm -f $d/meta.partial.json
echo "$id: ./check $prop $tier -> exit $rc, $nviol VIOLATION lines, $((end-start))s :: $first"
rm -f /tmp/seeded.$$.log; rm -rf /verif/replays
