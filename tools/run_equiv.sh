#!/bin/bash
# Development aid: apply a behaviour-preserving change (/verif/equiv/<id>/patch.diff) to /repo, confirm the 45 tests pass,
# run all four quick checks (expected: exit 0 each), undo, record in equiv/<id>/meta.json.
set -u
id=$1; d=/verif/equiv/$id
test -z "$(git -C /repo status --porcelain --untracked-files=no)" || { echo "/repo not clean"; exit 2; }
git -C /repo apply $d/patch.diff || exit 2
cd /verif
npass=$(cd /repo && cargo test --workspace --offline --no-fail-fast 2>&1 | grep -E "^test result: ok" | sed -E 's/.* ([0-9]+) passed.*/\1/' | paste -sd+ | bc)
res="{\"id\": \"$id\", \"existing_tests_passed_with_change\": $npass, \"checks_run\": ["
sep=""
for p in C09 C12 C17 C18; do
  cp evidence/$p.json /tmp/ev.$$.json
  s=$(date +%s); ./check $p quick > /tmp/eq.$$.log 2>&1; rc=$?; e=$(date +%s)
  cp /tmp/ev.$$.json evidence/$p.json
  nv=$(grep -c "^VIOLATION" /tmp/eq.$$.log); fv=$(grep -m1 "^violation\|^HARNESS" /tmp/eq.$$.log | cut -c1-300 | sed 's/"/\\"/g')
  res="$res$sep{\"cmd\": \"./check $p quick\", \"exit\": $rc, \"violation_lines\": $nv, \"seconds\": $((e-s)), \"first\": \"$fv\"}"; sep=", "
  echo "$id: ./check $p quick -> exit $rc ($nv VIOLATION lines, $((e-s))s) $fv"
done
git -C /repo checkout -- .
echo "$res], \"source\": \"behaviour-preserving change written by an independent sub-agent that saw only the property texts and a scratch worktree\"}" > $d/meta.json
rm -f /tmp/eq.$$.log /tmp/ev.$$.json; rm -rf /verif/replays
