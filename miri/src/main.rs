//! Scenarios for the second simulator (Miri, Tree Borrows, many seeds): one Miri seed = one
//! thread schedule with preemption at arbitrary basic blocks, one address layout, one set of
//! hash keys. Usage: miri_scn <c12|c17> <scenario seed>
#[path = "../../sim/src/rng.rs"]
#[allow(dead_code)]
mod rng;

use geo_booleanop::boolean::{BooleanOp, Operation};
use geo_booleanop::splay::{SplaySet, SplayTree};
use geo_types::{Coord, LineString, MultiPolygon, Polygon};
use rng::Rng;
use std::collections::BTreeMap;
use std::sync::Arc;

fn rect(x0: f64, y0: f64, x1: f64, y1: f64, hole: bool) -> Polygon<f64> {
    let ring = |a: f64, b: f64, c: f64, d: f64| LineString(vec![Coord { x: a, y: b }, Coord { x: c, y: b }, Coord { x: c, y: d }, Coord { x: a, y: d }, Coord { x: a, y: b }]);
    let holes = if hole && x1 - x0 >= 3.0 && y1 - y0 >= 3.0 { vec![ring(x0 + 1.0, y0 + 1.0, x1 - 1.0, y1 - 1.0)] } else { vec![] };
    Polygon::new(ring(x0, y0, x1, y1), holes)
}

fn tiny_operand(r: &mut Rng) -> MultiPolygon<f64> {
    match r.below(4) {
        0 => {
            // a triangle: one non-axis-parallel edge, so real intersection points are computed
            let (x, y) = (r.below(4) as f64, r.below(4) as f64);
            MultiPolygon(vec![Polygon::new(LineString(vec![Coord { x, y }, Coord { x: x + 4.0, y }, Coord { x: x + 1.0, y: y + 3.0 }, Coord { x, y }]), vec![])])
        }
        _ => {
            let (x, y) = (r.below(4) as f64, r.below(4) as f64);
            let (w, h) = (1.0 + r.below(4) as f64, 1.0 + r.below(4) as f64);
            MultiPolygon(vec![rect(x, y, x + w, y + h, r.chance(1, 3))])
        }
    }
}

fn image(m: &MultiPolygon<f64>) -> Vec<u64> {
    let mut v = vec![m.0.len() as u64];
    for p in &m.0 {
        v.push(1 + p.interiors().len() as u64);
        for rg in std::iter::once(p.exterior()).chain(p.interiors().iter()) {
            v.push(rg.0.len() as u64);
            for c in &rg.0 {
                v.push(c.x.to_bits());
                v.push(c.y.to_bits());
            }
        }
    }
    v
}

const OPS: [Operation; 4] = [Operation::Intersection, Operation::Union, Operation::Difference, Operation::Xor];

fn to32(m: &MultiPolygon<f64>) -> MultiPolygon<f32> {
    let ring = |r: &LineString<f64>| LineString(r.0.iter().map(|c| Coord { x: c.x as f32, y: c.y as f32 }).collect::<Vec<_>>());
    MultiPolygon(m.0.iter().map(|p| Polygon::new(ring(p.exterior()), p.interiors().iter().map(ring).collect())).collect())
}

fn one_call(a: &MultiPolygon<f64>, b: &MultiPolygon<f64>, op: Operation, pairing: u64) -> Vec<u64> {
    if pairing >= 4 {
        // single precision instantiation (operands are small integers, exactly representable)
        let (a, b) = (to32(a), to32(b));
        let r = match pairing % 4 {
            1 => a.0[0].boolean(&b.0[0], op),
            2 => a.0[0].boolean(&b, op),
            3 => a.boolean(&b.0[0], op),
            _ => a.boolean(&b, op),
        };
        let mut v = vec![r.0.len() as u64];
        for p in &r.0 {
            for rg in std::iter::once(p.exterior()).chain(p.interiors().iter()) {
                v.push(rg.0.len() as u64);
                for c in &rg.0 {
                    v.push(c.x.to_bits() as u64);
                    v.push(c.y.to_bits() as u64);
                }
            }
        }
        return v;
    }
    let r = match pairing % 4 {
        1 => a.0[0].boolean(&b.0[0], op),
        2 => a.0[0].boolean(b, op),
        3 => a.boolean(&b.0[0], op),
        _ => a.boolean(b, op),
    };
    image(&r)
}

fn c12(seed: u64) -> i32 {
    let mut r = Rng::stream(seed, "miri-c12");
    let pool: Arc<Vec<MultiPolygon<f64>>> = Arc::new((0..2 + r.below(2)).map(|_| tiny_operand(&mut r)).collect());
    let before: Vec<Vec<u64>> = pool.iter().map(image).collect();
    // scripts: 2..3 threads x 1..2 calls
    let nthreads = 2 + r.below(2) as usize;
    let mut scripts: Vec<Vec<(usize, usize, usize, u64)>> = Vec::new();
    for _ in 0..nthreads {
        let n = 1 + r.below(2) as usize;
        scripts.push((0..n).map(|_| (r.below(pool.len() as u64) as usize, r.below(pool.len() as u64) as usize, r.below(4) as usize, r.below(5) + if r.chance(1, 4) { 3 } else { 0 })).collect());
    }
    // reference: every distinct call once, in isolation — in half of the scenarios before any thread starts, in the
    // other half only after all threads have finished, so that the threads make the process's very first calls
    // (first-use initialisation races)
    let reference_first = r.chance(1, 2);
    let all: Vec<(usize, usize, usize, u64)> = scripts.iter().flatten().cloned().collect();
    let compute = |all: &[(usize, usize, usize, u64)]| {
        let mut reference: BTreeMap<(usize, usize, usize, u64), Vec<u64>> = BTreeMap::new();
        for s in all {
            reference.entry(*s).or_insert_with(|| one_call(&pool[s.0], &pool[s.1], OPS[s.2], s.3));
        }
        reference
    };
    let early = if reference_first { Some(compute(&all)) } else { None };
    let mut handles = Vec::new();
    for script in scripts.into_iter() {
        let pool = pool.clone();
        handles.push(std::thread::spawn(move || {
            script.into_iter().map(|s| (s, one_call(&pool[s.0], &pool[s.1], OPS[s.2], s.3))).collect::<Vec<_>>()
        }));
    }
    let results: Vec<Vec<_>> = handles.into_iter().map(|h| h.join().unwrap_or_default()).collect();
    let reference = match early {
        Some(x) => x,
        None => compute(&all),
    };
    let mut bad = 0;
    for (t, rs) in results.iter().enumerate() {
        for (s, got) in rs {
            if got != reference.get(s).unwrap() {
                println!("MIRI-VIOLATION property=C12 thread {} call {:?}: result differs from the same call in isolation", t, s);
                bad += 1;
            }
        }
    }
    let after: Vec<Vec<u64>> = pool.iter().map(image).collect();
    if before != after {
        println!("MIRI-VIOLATION property=C12 an operand changed");
        bad += 1;
    }
    println!("miri-scn c12 seed={} threads={} distinct_calls={} bad={}", seed, nthreads, reference.len(), bad);
    (bad > 0) as i32
}

fn c17(seed: u64) -> i32 {
    let mut r = Rng::stream(seed, "miri-c17");
    let universe = 2 + r.below(7);
    let cmp = |a: &u32, b: &u32| a.cmp(b);
    let mut t = SplayTree::new(cmp);
    let mut s = SplaySet::new(cmp);
    let mut model: BTreeMap<u32, u64> = BTreeMap::new();
    let mut bad = 0;
    let mut val = 0u64;
    let nops = 20 + r.below(40);
    let mut fail = |what: String| {
        println!("MIRI-VIOLATION property=C17 {}", what);
    };
    for i in 0..nops {
        let k = r.below(universe) as u32;
        match r.below(9) {
            0 | 1 | 2 => {
                val += 1;
                let got = t.insert(k, val);
                s.insert(k);
                if got != model.insert(k, val) {
                    fail(format!("op {} insert({})", i, k));
                    bad += 1;
                }
            }
            3 => {
                let got = t.remove(&k);
                s.remove(&k);
                if got != model.remove(&k) {
                    fail(format!("op {} remove({})", i, k));
                    bad += 1;
                }
            }
            4 => {
                if let Some(v) = t.get_mut(&k) {
                    val += 1;
                    *v = val;
                    model.insert(k, val);
                }
            }
            5 | 6 => {
                // read phase: keep every reference handed out, re-read all of them after each further lookup
                let mut held: Vec<(&u32, &u64, u32, u64)> = Vec::new();
                let mut held_set: Vec<(&u32, u32)> = Vec::new();
                for _ in 0..2 + r.below(5) {
                    let q = r.below(universe) as u32;
                    let (got, want) = if r.chance(1, 2) {
                        (t.next(&q), model.range(q + 1..).next())
                    } else {
                        (t.prev(&q), model.range(..q).next_back())
                    };
                    if got.map(|(a, b)| (*a, *b)) != want.map(|(a, b)| (*a, *b)) {
                        fail(format!("op {} neighbour of {}: {:?} vs {:?}", i, q, got, want));
                        bad += 1;
                    }
                    if let Some((a, b)) = got {
                        held.push((a, b, *a, *b));
                    }
                    if let Some(f) = s.find(&q) {
                        held_set.push((f, *f));
                    }
                    if let Some(f) = s.next(&q) {
                        held_set.push((f, *f));
                    }
                    if t.get(&q).copied() != model.get(&q).copied() {
                        fail(format!("op {} get({})", i, q));
                        bad += 1;
                    }
                    for (a, b, ea, eb) in &held {
                        if **a != *ea || **b != *eb {
                            fail(format!("op {} held reference changed", i));
                            bad += 1;
                        }
                    }
                    for (a, ea) in &held_set {
                        if **a != *ea {
                            fail(format!("op {} held set reference changed", i));
                            bad += 1;
                        }
                    }
                }
            }
            7 => {
                if t.min().copied() != model.keys().next().copied() || t.max().copied() != model.keys().next_back().copied() || s.min() != t.min() {
                    fail(format!("op {} min/max", i));
                    bad += 1;
                }
            }
            _ => {
                // consume (partially, mixed directions), then rebuild
                let old = std::mem::replace(&mut t, SplayTree::new(cmp));
                let olds = std::mem::replace(&mut s, SplaySet::new(cmp));
                let mut expect: std::collections::VecDeque<(u32, u64)> = model.iter().map(|(a, b)| (*a, *b)).collect();
                let mut it = old.into_iter();
                let mut its = olds.into_iter();
                for _ in 0..r.below(expect.len() as u64 + 2) {
                    let front = r.chance(1, 2);
                    let (g, gs, w) = if front { (it.next(), its.next(), expect.pop_front()) } else { (it.next_back(), its.next_back(), expect.pop_back()) };
                    if g != w || gs != w.map(|x| x.0) {
                        fail(format!("op {} consumption {:?} vs {:?}", i, g, w));
                        bad += 1;
                    }
                }
                drop(it);
                drop(its);
                model.clear();
                if r.chance(1, 2) {
                    let batch: Vec<(u32, u64)> = (0..r.below(universe + 1)).map(|j| (r.below(universe) as u32, 1000 + j)).collect();
                    for (a, b) in &batch {
                        model.insert(*a, *b);
                    }
                    s.extend(batch.iter().map(|x| x.0));
                    t.extend(batch);
                }
            }
        }
        if t.len() != model.len() || s.len() != model.len() {
            fail(format!("op {} len {} / {} vs {}", i, t.len(), s.len(), model.len()));
            bad += 1;
        }
    }
    if r.chance(1, 2) {
        t.clear();
    }
    drop(t);
    println!("miri-scn c17 seed={} ops={} universe={} bad={}", seed, nops, universe, bad);
    (bad > 0) as i32
}

fn main() {
    let a: Vec<String> = std::env::args().collect();
    let base: u64 = a.get(2).and_then(|s| s.parse().ok()).unwrap_or(1);
    // Under Miri the scenario also depends on Miri's seed (through the deterministic hash keys Miri hands out), so
    // `-Zmiri-many-seeds=a..b` runs b-a different scenarios; (argv seed, -Zmiri-seed=k) replays one exactly.
    let seed = if cfg!(miri) {
        use std::hash::BuildHasher;
        rng::mix(base, std::collections::hash_map::RandomState::new().hash_one(0u64))
    } else {
        base
    };
    let code = match a.get(1).map(|s| s.as_str()) {
        Some("c12") => c12(seed),
        Some("c17") => c17(seed),
        _ => 2,
    };
    std::process::exit(code);
}
