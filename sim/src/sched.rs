//! Baton-passing scheduler over real, parked OS threads: exactly one simulated client runs at
//! any instant; every choice of who runs next comes from the schedule stream (or from an
//! explicit recorded list when replaying), so an interleaving is a pure function of the world.

use crate::rng::Rng;
use std::sync::{Condvar, Mutex, MutexGuard};
use std::time::Duration;

pub const CTL: usize = usize::MAX;

pub enum Mode {
    /// seeded: at a sweep event yield with probability yield16/16, then pick uniformly
    Seeded { rng: Rng, yield16: u64 },
    /// replay: one recorded choice per scheduling point; when exhausted, keep running the current client
    Explicit { list: Vec<u8>, pos: usize },
}

pub struct Inner {
    pub current: usize,
    pub alive: Vec<bool>,
    pub mode: Mode,
    pub log: Vec<u8>,
    pub points: u64,
    pub switches: u64,
    pub in_flight: Vec<bool>,
    pub max_in_flight: u64,
}

pub struct Sched {
    pub m: Mutex<Inner>,
    cv: Vec<Condvar>,
    ctl: Condvar,
}

fn lock(m: &Mutex<Inner>) -> MutexGuard<Inner> {
    m.lock().unwrap_or_else(|e| e.into_inner())
}

impl Inner {
    fn alive_list(&self) -> Vec<usize> {
        (0..self.alive.len()).filter(|i| self.alive[*i]).collect()
    }
    /// who runs next; `me` is the asking client (alive unless it is finishing)
    fn choose(&mut self, me: usize, in_sweep: bool) -> usize {
        let runnable = self.alive_list();
        if runnable.is_empty() {
            return CTL;
        }
        let me_ok = self.alive.get(me).cloned().unwrap_or(false);
        let next = match &mut self.mode {
            Mode::Seeded { rng, yield16 } => {
                if me_ok && in_sweep && !rng.chance(*yield16, 16) {
                    me
                } else {
                    *rng.pick(&runnable)
                }
            }
            Mode::Explicit { list, pos } => {
                let c = if *pos < list.len() {
                    let c = list[*pos] as usize;
                    *pos += 1;
                    c
                } else {
                    me
                };
                if self.alive.get(c).cloned().unwrap_or(false) {
                    c
                } else if me_ok {
                    me
                } else {
                    runnable[0]
                }
            }
        };
        self.log.push(next as u8);
        self.points += 1;
        if next != me {
            self.switches += 1;
        }
        next
    }
}

impl Sched {
    pub fn new(clients: usize, mode: Mode) -> Sched {
        Sched {
            m: Mutex::new(Inner {
                current: CTL, alive: vec![true; clients], mode, log: Vec::new(), points: 0, switches: 0,
                in_flight: vec![false; clients], max_in_flight: 0,
            }),
            cv: (0..clients).map(|_| Condvar::new()).collect(),
            ctl: Condvar::new(),
        }
    }

    /// Controller: hand the baton to the first client and wait until every client has finished.
    /// Returns false when nothing moved for `stall` (a client blocks on something the simulator does not own).
    pub fn run(&self, stall: Duration) -> bool {
        let mut g = lock(&self.m);
        let first = g.choose(CTL, false);
        if first == CTL {
            return true;
        }
        g.current = first;
        self.cv[first].notify_one();
        let mut last_points = g.points;
        loop {
            let (ng, to) = self.ctl.wait_timeout(g, stall).unwrap_or_else(|e| e.into_inner());
            g = ng;
            if g.current == CTL && g.alive.iter().all(|a| !*a) {
                return true;
            }
            if to.timed_out() {
                if g.points == last_points {
                    return false;
                }
                last_points = g.points;
            }
        }
    }

    /// A client thread parks here until it holds the baton.
    pub fn wait_turn(&self, me: usize) {
        let mut g = lock(&self.m);
        while g.current != me {
            g = self.cv[me].wait(g).unwrap_or_else(|e| e.into_inner());
        }
    }

    /// Scheduling point of the running client.
    pub fn point(&self, me: usize, in_sweep: bool) {
        let mut g = lock(&self.m);
        debug_assert_eq!(g.current, me);
        let next = g.choose(me, in_sweep);
        if next != me {
            g.current = next;
            self.cv[next].notify_one();
            while g.current != me {
                g = self.cv[me].wait(g).unwrap_or_else(|e| e.into_inner());
            }
        }
    }

    pub fn set_in_flight(&self, me: usize, v: bool) {
        let mut g = lock(&self.m);
        g.in_flight[me] = v;
        let n = g.in_flight.iter().filter(|x| **x).count() as u64;
        if n > g.max_in_flight {
            g.max_in_flight = n;
        }
    }
    pub fn others_in_flight(&self, me: usize) -> u64 {
        let g = lock(&self.m);
        g.in_flight.iter().enumerate().filter(|(i, x)| *i != me && **x).count() as u64
    }

    /// The running client has finished its script.
    pub fn finish(&self, me: usize) {
        let mut g = lock(&self.m);
        g.alive[me] = false;
        let next = g.choose(me, false);
        g.current = next;
        if next == CTL {
            self.ctl.notify_one();
        } else {
            self.cv[next].notify_one();
        }
    }
}
