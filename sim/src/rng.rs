//! One integer decides everything: SplitMix64 streams split off by purpose.

#[derive(Clone, Debug)]
pub struct Rng(pub u64);

pub fn mix(a: u64, b: u64) -> u64 {
    let mut z = a ^ b.wrapping_mul(0x9E37_79B9_7F4A_7C15).rotate_left(17) ^ 0xD6E8_FEB8_6659_FD93;
    z = (z ^ (z >> 30)).wrapping_mul(0xBF58_476D_1CE4_E5B9);
    z = (z ^ (z >> 27)).wrapping_mul(0x94D0_49BB_1331_11EB);
    z ^ (z >> 31)
}

impl Rng {
    pub fn new(seed: u64) -> Rng {
        Rng(mix(seed, 0x5EED))
    }
    /// Independent stream for a named purpose; adding draws to one stream never shifts another.
    pub fn stream(seed: u64, purpose: &str) -> Rng {
        let mut h = seed;
        for b in purpose.bytes() {
            h = mix(h, b as u64);
        }
        Rng(h)
    }
    pub fn next(&mut self) -> u64 {
        self.0 = self.0.wrapping_add(0x9E37_79B9_7F4A_7C15);
        let mut z = self.0;
        z = (z ^ (z >> 30)).wrapping_mul(0xBF58_476D_1CE4_E5B9);
        z = (z ^ (z >> 27)).wrapping_mul(0x94D0_49BB_1331_11EB);
        z ^ (z >> 31)
    }
    /// uniform in 0..n (n > 0)
    pub fn below(&mut self, n: u64) -> u64 {
        debug_assert!(n > 0);
        ((self.next() as u128 * n as u128) >> 64) as u64
    }
    pub fn range(&mut self, lo: i64, hi_incl: i64) -> i64 {
        lo + self.below((hi_incl - lo + 1) as u64) as i64
    }
    pub fn chance(&mut self, num: u64, den: u64) -> bool {
        self.below(den) < num
    }
    pub fn pick<'a, T>(&mut self, xs: &'a [T]) -> &'a T {
        &xs[self.below(xs.len() as u64) as usize]
    }
    pub fn shuffle<T>(&mut self, xs: &mut [T]) {
        for i in (1..xs.len()).rev() {
            let j = self.below(i as u64 + 1) as usize;
            xs.swap(i, j);
        }
    }
}

/// FNV-1a style 64-bit running hash for event logs (order-sensitive, no allocation).
#[derive(Clone, Copy, Debug)]
pub struct LogHash(pub u64);
impl LogHash {
    pub fn new() -> LogHash {
        LogHash(0xcbf2_9ce4_8422_2325)
    }
    pub fn add(&mut self, v: u64) {
        self.0 = mix(self.0, v);
    }
    pub fn add_bytes(&mut self, bs: &[u8]) {
        for c in bs.chunks(8) {
            let mut w = [0u8; 8];
            w[..c.len()].copy_from_slice(c);
            self.add(u64::from_le_bytes(w));
        }
        self.add(bs.len() as u64);
    }
}
