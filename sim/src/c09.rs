//! C09 (second clause) — buggify differential: the bounding-box shortcut and the early sweep
//! exit are fault points the simulator switches off; every configuration must agree with the
//! execution that has both switched off.

use crate::batch::{Stats, Tier, Verdict, Violation, World};
use crate::geom::{self, Operand};
use crate::heap::{self, Policy};
use crate::rng::{LogHash, Rng};
use crate::simhooks::{self, Outcome};
use geo_booleanop::boolean::{BooleanOp, Operation};
use serde_json::{json, Value};

pub const OPS: [Operation; 4] = [Operation::Intersection, Operation::Union, Operation::Difference, Operation::Xor];
pub const OP_NAMES: [&str; 4] = ["intersection", "union", "difference", "xor"];
pub const PAIRINGS: [&str; 4] = ["MultiPolygon x MultiPolygon", "Polygon x Polygon", "Polygon x MultiPolygon", "MultiPolygon x Polygon"];

/// One library call through the trait implementation selected by `pairing` (a side is passed
/// as `Polygon` only when it has exactly one part), in f64 or f32. Returns bit image + result.
pub fn call(a: &Operand, b: &Operand, op: Operation, pairing: u8, f32_: bool) -> (Vec<u64>, Operand) {
    macro_rules! go {
        ($ma:expr, $mb:expr) => {{
            let (ma, mb) = ($ma, $mb);
            let pa = (pairing == 1 || pairing == 2) && ma.0.len() == 1;
            let pb = (pairing == 1 || pairing == 3) && mb.0.len() == 1;
            let r = match (pa, pb) {
                (true, true) => ma.0[0].boolean(&mb.0[0], op),
                (true, false) => ma.0[0].boolean(&mb, op),
                (false, true) => ma.boolean(&mb.0[0], op),
                (false, false) => ma.boolean(&mb, op),
            };
            (geom::image(&r), geom::from_mp(&r))
        }};
    }
    if f32_ {
        go!(geom::to_mp32(a), geom::to_mp32(b))
    } else {
        go!(geom::to_mp64(a), geom::to_mp64(b))
    }
}

#[derive(Clone, Debug)]
pub struct C09World {
    pub a: Operand,
    pub b: Operand,
    pub f32_: bool,
    pub pairing: u8,
    pub ops: Vec<u8>,
    pub tag: String,
    pub hash_seed: u64,
    /// operands whose edges cross at non-representable points: executions are compared as regions
    /// (sampled, with tolerance) instead of bit for bit
    pub inexact: bool,
}

struct Run {
    out: Outcome<(Vec<u64>, Operand)>,
    shortcut: bool,
    early: bool,
    events: u64,
    /// the sweep loop ended with an empty queue (reported through the after-sweep seam)
    completed: bool,
}

fn exec(w: &C09World, op: u8, no_shortcut: bool, no_early: bool, with_handler: bool) -> Run {
    if !with_handler {
        simhooks::uninstall();
        let out = heap::with_policy(Policy::CANON, || simhooks::guarded(|| call(&w.a, &w.b, OPS[op as usize], w.pairing, w.f32_)));
        return Run { out, shortcut: false, early: false, events: 0, completed: true };
    }
    let h = simhooks::handler();
    h.events.set(0);
    h.ticks.set(0);
    h.connect_steps.set(0);
    h.cancel_at.set(0);
    h.budget.set(simhooks::event_budget(geom::edge_count(&w.a) + geom::edge_count(&w.b)));
    h.no_shortcut.set(no_shortcut);
    h.no_early.set(no_early);
    // reference configuration: the boxes are the whole plane from the moment they are accumulated, so that no
    // box-derived pruning anywhere (queue filling included) can be active
    h.widen_source.set(no_shortcut && no_early);
    h.shortcut_fired.set(0);
    h.early_fired.set(0);
    h.after_sweep_seen.set(false);
    h.remaining_after_sweep.set(0);
    let out = heap::with_policy(Policy::CANON, || simhooks::guarded(|| call(&w.a, &w.b, OPS[op as usize], w.pairing, w.f32_)));
    Run {
        out, shortcut: h.shortcut_fired.get() > 0, early: h.early_fired.get() > 0, events: h.events.get(),
        completed: h.after_sweep_seen.get() && h.remaining_after_sweep.get() == 0,
    }
}

fn first_diff(a: &[u64], b: &[u64]) -> String {
    if a.len() != b.len() {
        return format!("images differ in length ({} vs {} words)", a.len(), b.len());
    }
    match a.iter().zip(b).position(|(x, y)| x != y) {
        Some(i) => format!("images differ at word {} ({:#x} vs {:#x})", i, a[i], b[i]),
        None => "images equal".into(),
    }
}

impl C09World {
    fn check_op(&self, op: u8, st: &mut Stats, log: &mut LogHash) -> Option<Violation> {
        let name = OP_NAMES[op as usize];
        let reference = exec(self, op, true, true, true);
        st.inc("calls_reference");
        st.add("sweep_events_processed", reference.events);
        if reference.shortcut || reference.early {
            // a known exit fired although its boxes say "never": the code takes it on other grounds as well (e.g. an
            // explicit test for empty operands at the same site). Treated below like any exit the simulator cannot
            // switch off: the result is checked against the region model.
            st.inc("observed_known_exit_taken_although_switched_off");
        }
        let (rimg, rres) = match &reference.out {
            Outcome::Ok(x) => x,
            other => {
                st.inc(&format!("out_of_scope_reference_{}", other.tag()));
                log.add(0xdead);
                return None;
            }
        };
        log.add_bytes(&rimg.iter().flat_map(|w| w.to_le_bytes()).collect::<Vec<u8>>());
        let expected_events = 2 * (geom::nondegenerate_edges(&self.a) + geom::nondegenerate_edges(&self.b)) as u64;
        if reference.completed && reference.events < expected_events {
            // The sweep ran to completion but popped fewer events than two per input edge: some edges were never
            // queued, i.e. a pruning step exists that the simulator cannot switch off (it does not go through the
            // boxes the simulator owns). Same treatment as an unknown exit: only a wrong result is reported.
            st.inc("observed_pruning_the_simulator_cannot_switch_off");
            if let Some((x, y)) = geom::model_mismatch(&self.a, &self.b, op, rres) {
                return Some(Violation {
                    class: "unswitchable_fast_path_changes_result".into(),
                    detail: format!("{}: with every known fast path switched off only {} sweep events were processed for {} input edges (edges were pruned before the sweep), and the result {} is wrong at point ({}, {}) by the region model", name, reference.events, expected_events / 2, geom::wkt(rres), x, y),
                });
            }
        }
        if !reference.completed {
            // Both known fast paths are switched off and still the sweep did not run to completion: the code has a
            // fast path the simulator cannot switch off, so the differential has no slow-path reference for this
            // call. Its result is checked against the executable region model instead.
            st.inc("observed_fast_path_the_simulator_cannot_switch_off");
            if let Some((x, y)) = geom::model_mismatch(&self.a, &self.b, op, rres) {
                return Some(Violation {
                    class: "unswitchable_fast_path_changes_result".into(),
                    detail: format!("{}: with both known fast paths switched off the sweep still did not run to completion, and the result {} is wrong at point ({}, {}) by the region model", name, geom::wkt(rres), x, y),
                });
            }
        }
        let mut state = LogHash::new();
        state.add_bytes(format!("{}/{}/{}/{}/{}", name, self.pairing, self.f32_, self.tag, rimg[0] > 0).as_bytes());
        for (cfg, no_s, no_e, handler) in [("early-exit on", true, false, true), ("shortcut on", false, true, true), ("both on (shipped)", false, false, true), ("no handler installed", false, false, false)] {
            let v = exec(self, op, no_s, no_e, handler);
            st.inc("calls_variant");
            if v.shortcut {
                st.inc("probe_shortcut_taken");
            }
            if v.early {
                st.inc("probe_early_exit_taken");
            }
            if (no_s && v.shortcut) || (no_e && v.early) {
                st.inc("observed_known_exit_taken_although_switched_off");
            }
            state.add((v.shortcut as u64) << 1 | v.early as u64);
            if handler && !v.completed && reference.completed && !((v.shortcut && !no_s) || (v.early && !no_e)) {
                st.inc("observed_fast_path_the_simulator_cannot_switch_off");
                if let Outcome::Ok((_, res)) = &v.out {
                    if let Some((x, y)) = geom::model_mismatch(&self.a, &self.b, op, res) {
                        return Some(Violation {
                            class: "unswitchable_fast_path_changes_result".into(),
                            detail: format!("{} [{}]: the sweep ended early through a path the simulator does not know, and the result {} is wrong at point ({}, {}) by the region model", name, cfg, geom::wkt(res), x, y),
                        });
                    }
                }
            }
            let (img, res) = match &v.out {
                Outcome::Ok(x) => x,
                other => {
                    return Some(Violation {
                        class: "fast_path_changes_outcome".into(),
                        detail: format!("{} [{}]: the all-slow-path execution returns normally, this one ends with {} {:?}", name, cfg, other.tag(),
                            if let Outcome::Panic(m) = other { m.clone() } else { String::new() }),
                    });
                }
            };
            if handler && !v.shortcut && self.inexact {
                // crossing lattice polygons: intersection points are rounded, a result vertex may legitimately differ
                // in its last bits depending on how far the sweep ran; compare the regions (sampled away from edges)
                st.inc("region_comparisons_inexact_family");
                if let Some((x, y)) = geom::region_diff_evenodd(res, rres) {
                    return Some(Violation {
                        class: if v.early { "early_exit_changes_region".into() } else { "switch_changes_region".into() },
                        detail: format!("{} [{}; early exit taken: {}]: point ({}, {}) is in exactly one of {} and reference {}", name, cfg, v.early, x, y, geom::wkt(res), geom::wkt(rres)),
                    });
                }
            } else if handler && !v.shortcut {
                // same instruction sequence up to the first event right of the bound: bit identity
                if img != rimg {
                    st.inc("bit_comparisons");
                    return Some(Violation {
                        class: if v.early { "early_exit_changes_result".into() } else { "switch_changes_result".into() },
                        detail: format!("{} [{}; early exit taken: {}]: {}; reference {} vs {}", name, cfg, v.early, first_diff(img, rimg), geom::wkt(rres), geom::wkt(res)),
                    });
                }
                st.inc("bit_comparisons");
            } else if handler {
                st.inc("region_comparisons");
                if !(geom::is_rectilinear(res) && geom::is_rectilinear(rres)) {
                    st.inc("region_comparisons_sampled_with_tolerance");
                }
                if let Some((x, y)) = geom::region_diff_any(res, rres) {
                    return Some(Violation {
                        class: "shortcut_changes_region".into(),
                        detail: format!("{} [{}]: point ({}, {}) is in exactly one of shortcut result {} and sweep result {}", name, cfg, x, y, geom::wkt(res), geom::wkt(rres)),
                    });
                }
            } else {
                // hooks inert: identical to the shipped configuration with a handler installed.
                // (compared against the reference by transitivity; here only against itself one level up)
                st.inc("no_handler_comparisons");
                let shipped = exec(self, op, false, false, true);
                match &shipped.out {
                    Outcome::Ok((simg, _)) if simg == img => {}
                    _ => {
                        return Some(Violation {
                            class: "hooks_not_inert".into(),
                            detail: format!("{}: result without a handler differs from the result with an all-default handler", name),
                        })
                    }
                }
            }
        }
        st.distinct.insert(state.0);
        None
    }
}

fn place_beyond(b: &Operand, target: (f64, f64, f64, f64), side: u64, gap: f64, slide: f64) -> Operand {
    let bb = match geom::bbox(b) {
        Some(x) => x,
        None => return b.clone(),
    };
    let (dx, dy) = match side {
        0 => (target.0 - gap - bb.2, slide), // left
        1 => (target.2 + gap - bb.0, slide), // right
        2 => (slide, target.1 - gap - bb.3), // below
        _ => (slide, target.3 + gap - bb.1), // above
    };
    geom::translate(b, dx, dy)
}

impl World for C09World {
    const PROP: &'static str = "C09";

    fn generate(seed: u64, _index: u64, _tier: Tier) -> Self {
        let mut r = Rng::stream(seed, "workload");
        let g = 8 + r.below(8) as i64;
        // calibration aid only (never set by a registered check): the inexact lattice-star family
        let stars = std::env::var("VERIF_C09_FAMILY").map(|v| v == "stars").unwrap_or(false);
        let mut fam = |r: &mut Rng| {
            if stars {
                geom::gen_valid_star_operand(r, g)
            } else if r.chance(2, 5) {
                geom::gen_ortho_operand(r, g)
            } else {
                geom::gen_rect_operand(r, g, 4)
            }
        };
        let mut a = fam(&mut r);
        let mut b = fam(&mut r);
        if !stars && r.chance(1, 40) {
            // crossing combs: k long horizontal bars against m long vertical bars (many divisions per edge)
            let (k, m) = (4 + r.below(21) as i64, 4 + r.below(21) as i64);
            let bars = |n: i64, len: i64, horizontal: bool| -> Operand {
                (0..n).map(|i| {
                    let (a0, a1, b0, b1) = (-1.0, (2 * len + 1) as f64, (2 * i) as f64, (2 * i + 1) as f64);
                    let ring = if horizontal { vec![[a0, b0], [a1, b0], [a1, b1], [a0, b1], [a0, b0]] } else { vec![[b0, a0], [b1, a0], [b1, a1], [b0, a1], [b0, a0]] };
                    vec![ring]
                }).collect()
            };
            a = bars(k, m, true);
            b = bars(m, k, false);
            if r.chance(1, 2) { std::mem::swap(&mut a, &mut b); }
        }
        if !stars && r.chance(1, 12) {
            // many small parts (thresholds such as "only when there are at least N parts")
            let many = |r: &mut Rng| {
                let mut o = geom::gen_rect_operand(r, 2 * g, 4);
                for _ in 0..3 {
                    let extra = geom::gen_rect_operand(r, 2 * g, 4);
                    for p in extra {
                        let mut cand = o.clone();
                        cand.push(p);
                        if geom::valid_rect_parts(&cand) {
                            o = cand;
                        }
                    }
                }
                o
            };
            if r.chance(1, 2) { a = many(&mut r); } else { b = many(&mut r); }
            if r.chance(1, 3) { b = geom::gen_rect_operand(&mut r, 2 * g, 1); }
        }
        // third exact family: valid lattice polygons whose edges never meet the other operand's edges (side by
        // side or nested): no intersection point is ever computed, vertices can be strict extremes
        let lattice = !stars && r.chance(7, 20);
        if lattice {
            a = geom::gen_valid_star_operand(&mut r, g);
            b = geom::gen_valid_star_operand(&mut r, (g / 2).max(4));
            if r.chance(3, 5) {
                // a tiny triangle or square at a random lattice point of `a`'s box: nested inside `a`, in one of its
                // concavities, or just beside it
                if let Some(ba) = geom::bbox(&a) {
                    for _ in 0..12 {
                        let (x, y) = (r.range(ba.0 as i64, ba.2 as i64) as f64, r.range(ba.1 as i64, ba.3 as i64) as f64);
                        let mut ring = vec![[x, y], [x + 1.0, y], [x + 1.0, y + 1.0], [x, y + 1.0]];
                        if r.chance(2, 3) {
                            ring.remove(r.below(4) as usize);
                        }
                        let k = r.below(ring.len() as u64) as usize;
                        ring.rotate_left(k);
                        let f = ring[0];
                        ring.push(f);
                        let tiny: Operand = vec![vec![ring]];
                        if geom::edges_apart(&a, &tiny) {
                            b = tiny;
                            break;
                        }
                    }
                }
            }
            if r.chance(1, 2) {
                std::mem::swap(&mut a, &mut b); // either operand may be the enclosing one
            }
        }
        let sides = ["left", "right", "below", "above"];
        let mut far_huge = false;
        let kind = r.below(10);
        let _ = &far_huge;
        let tag;
        match kind {
            0..=2 => {
                let side = r.below(4);
                // touching, near, or so far away that float spacing is comparable to the feature size
                let huge = r.chance(1, 8);
                let gap = if huge { (2.0f64).powi(*r.pick(&[20, 25, 27, 40, 50, 54])) } else { *r.pick(&[0.0, 1.0, 7.0]) };
                let slide = if huge { if r.chance(1, 2) { gap } else { 0.0 } } else { r.range(-(g / 2), g / 2) as f64 };
                let b_near = place_beyond(&b, geom::bbox(&a).unwrap(), side, 1.0, slide);
                if huge {
                    b = geom::scale(&b, 8.0);
                }
                let placed = place_beyond(&b, geom::bbox(&a).unwrap(), side, gap, slide);
                // only keep the far placement if no coordinate was rounded (the operand must stay the valid shape it was)
                let shift = (geom::bbox(&placed).unwrap().0 - geom::bbox(&b).unwrap().0, geom::bbox(&placed).unwrap().1 - geom::bbox(&b).unwrap().1);
                if !huge {
                    b = placed;
                } else if let Some(exact) = geom::translate_exact(&b, shift.0, shift.1) {
                    far_huge = true;
                    b = exact;
                } else {
                    b = b_near;
                }
                tag = format!("clip {} of subject, gap {}", sides[side as usize], gap);
            }
            3..=5 => {
                b = geom::translate(&b, r.range(-(g / 2), g / 2) as f64, r.range(-(g / 2), g / 2) as f64);
                let side = r.below(4);
                // ordinary distances, and distances at which the spacing of floats is comparable to the feature size
                // (the far part is then scaled by 8 so that its own coordinates stay representable)
                let huge = r.chance(1, 6);
                let gap = if huge { (2.0f64).powi(*r.pick(&[25, 26, 27, 54, 55])) } else { *r.pick(&[1.0, 7.0, 50.0]) };
                let far = geom::gen_rect_operand(&mut r, (g / 2).max(4), 1);
                let far = if huge { geom::scale(&far, 8.0) } else { far };
                far_huge = huge;
                let (ba, bb) = (geom::bbox(&a).unwrap(), geom::bbox(&b).unwrap());
                let all = (ba.0.min(bb.0), ba.1.min(bb.1), ba.2.max(bb.2), ba.3.max(bb.3));
                let far0 = far.clone();
                // (a far part may be far along both axes: the slide is then as large as the gap)
                let slide_far = if huge && r.chance(1, 2) { gap } else { 0.0 };
                let mut far = place_beyond(&far, all, side, gap, if huge { slide_far } else { r.range(-(g / 2), g / 2) as f64 });
                if huge {
                    let shift = (geom::bbox(&far).unwrap().0 - geom::bbox(&far0).unwrap().0, geom::bbox(&far).unwrap().1 - geom::bbox(&far0).unwrap().1);
                    match geom::translate_exact(&far0, shift.0, shift.1) {
                        Some(exact) => far = exact,
                        None => {
                            far = place_beyond(&geom::scale(&far0, 0.125), all, side, 7.0, 0.0);
                            far_huge = false;
                        }
                    }
                }
                let on_subject = r.chance(1, 2);
                if on_subject {
                    a.extend(far);
                } else {
                    b.extend(far);
                }
                tag = format!("overlapping + far part on {} {} gap {}", if on_subject { "subject" } else { "clip" }, sides[side as usize], gap);
            }
            6..=8 => {
                b = geom::translate(&b, r.range(-g, g) as f64, r.range(-g, g) as f64);
                tag = "overlapping".to_string();
            }
            _ => {
                let which = r.below(3);
                let empty: Operand = if r.chance(1, 3) { vec![vec![vec![]]] } else { vec![] };
                match which {
                    0 => a = empty,
                    1 => b = empty,
                    _ => {
                        a = empty.clone();
                        b = empty;
                    }
                }
                tag = "empty operand".to_string();
            }
        }
        if lattice && !geom::edges_apart(&a, &b) {
            let b0 = b.clone();
            let mut ok = false;
            for _ in 0..30 {
                b = geom::translate(&b0, r.range(-g, g) as f64, r.range(-g, g) as f64);
                if geom::edges_apart(&a, &b) {
                    ok = true;
                    break;
                }
            }
            if !ok {
                if let Some(ba) = geom::bbox(&a) {
                    b = place_beyond(&b0, ba, r.below(4), 1.0, 0.0);
                }
            }
        }
        // fourth family (inexact): valid lattice polygons that may cross each other
        // (calibration aid, like `stars`: on the unchanged tree this family is not silent even at region level)
        let crossing = std::env::var("VERIF_C09_FAMILY").map(|v| v == "crossing").unwrap_or(false) && !lattice;
        if crossing {
            a = geom::gen_valid_star_operand(&mut r, g);
            b = geom::translate(&geom::gen_valid_star_operand(&mut r, g), r.range(-g / 2, g / 2) as f64, r.range(-g / 2, g / 2) as f64);
        }
        // fifth family: octilinear polygons on the even lattice; operands may cross each other, every true
        // intersection point is a lattice point
        let octi = !stars && !lattice && !crossing && r.chance(1, 4);
        if octi {
            a = geom::gen_octi_operand(&mut r, g);
            b = geom::gen_octi_operand(&mut r, g);
        }
        let tag = if lattice { format!("lattice non-crossing; {}", tag) } else if crossing { "lattice crossing (region-level comparison)".to_string() } else if octi { format!("octilinear; {}", tag) } else { tag };
        // exact similarity: integer offset, power-of-two scale
        let f32_ = r.chance(1, 4);
        let (dx, dy) = if far_huge {
            (0.0, 0.0)
        } else if f32_ || r.chance(1, 2) { (r.range(-40, 40) as f64, r.range(-40, 40) as f64) } else { (r.range(-(1 << 20), 1 << 20) as f64, r.range(-(1 << 20), 1 << 20) as f64) };
        // power-of-two scales keep every step exact; occasionally far from 1 (absolute tolerances show only there)
        let s = if far_huge {
            1.0
        } else if r.chance(1, 5) {
            // bounded so that fourth powers of coordinate differences neither underflow nor overflow in F
            (2.0f64).powi(if f32_ { r.range(-24, 20) } else { r.range(-200, 200) } as i32)
        } else {
            (2.0f64).powi(r.range(-3, 3) as i32)
        };
        a = geom::scale(&geom::translate(&a, dx, dy), s);
        b = geom::scale(&geom::translate(&b, dx, dy), s);
        let f32_ = f32_ && geom::fits_f32(&a) && geom::fits_f32(&b);
        if stars && !(geom::valid_simple_parts(&a) && geom::valid_simple_parts(&b)) {
            // a far part landed on another part, or the scale made coordinates fractional: undo scale, else use a trivially valid pair
            a = geom::scale(&a, 1.0 / s);
            b = geom::scale(&b, 1.0 / s);
            if !(geom::valid_simple_parts(&a) && geom::valid_simple_parts(&b)) {
                a = vec![vec![vec![[0.0, 0.0], [3.0, 0.0], [0.0, 3.0], [0.0, 0.0]]]];
                b = vec![vec![vec![[1.0, 1.0], [4.0, 1.0], [1.0, 4.0], [1.0, 1.0]]]];
            }
        }
        let mut ops: Vec<u8> = (0..4).filter(|_| r.chance(3, 4)).collect();
        if ops.is_empty() {
            ops.push(r.below(4) as u8);
        }
        C09World { a, b, f32_, pairing: r.below(4) as u8, ops, tag, hash_seed: Rng::stream(seed, "hashkeys").next(), inexact: crossing || stars }
    }

    fn to_json(&self) -> Value {
        json!({"subject": geom::operand_json(&self.a), "clip": geom::operand_json(&self.b), "float": if self.f32_ { "f32" } else { "f64" },
            "pairing": self.pairing, "pairing_name": PAIRINGS[self.pairing as usize], "ops": self.ops.iter().map(|o| OP_NAMES[*o as usize]).collect::<Vec<_>>(),
            "placement": self.tag, "inexact_family": self.inexact, "hash_key_seed": self.hash_seed.to_string(), "subject_wkt": geom::wkt(&self.a), "clip_wkt": geom::wkt(&self.b)})
    }

    fn from_json(v: &Value) -> Result<Self, String> {
        Ok(C09World {
            a: geom::operand_from(&v["subject"])?,
            b: geom::operand_from(&v["clip"])?,
            f32_: v["float"] == "f32",
            pairing: v["pairing"].as_u64().unwrap_or(0) as u8,
            ops: v["ops"].as_array().ok_or("ops")?.iter().filter_map(|o| OP_NAMES.iter().position(|n| Some(*n) == o.as_str()).map(|i| i as u8)).collect(),
            tag: v["placement"].as_str().unwrap_or("").to_string(),
            hash_seed: v["hash_key_seed"].as_str().and_then(|s| s.parse().ok()).unwrap_or(0),
            inexact: v["inexact_family"].as_bool().unwrap_or(false),
        })
    }

    fn run(&self, st: &mut Stats) -> Verdict {
        let mut log = LogHash::new();
        let mut violation = None;
        heap::set_hash_seed(self.hash_seed); // this (fresh) thread's hash keys are part of the world
        let _ = heap::reset(self.hash_seed); // library calls run on the canonical simulated heap, never on the system allocator
        st.inc("worlds");
        st.add("observed_fast_path_the_simulator_cannot_switch_off", 0);
        st.add("observed_pruning_the_simulator_cannot_switch_off", 0);
        st.add("observed_known_exit_taken_although_switched_off", 0);
        st.inc(&format!("float_{}", if self.f32_ { "f32" } else { "f64" }));
        st.inc(&format!("family_{}", self.tag.split(';').next().unwrap_or("").split(' ').next().unwrap_or("rect")));
        for op in &self.ops {
            if let Some(v) = self.check_op(*op, st, &mut log) {
                violation = Some(v);
                break;
            }
        }
        simhooks::handler().widen_source.set(false);
        let me = self;
        st.sample(3, || me.to_json());
        log.add(violation.is_some() as u64);
        Verdict { violation, log_hash: log.0 }
    }

    fn shrink(&self) -> Vec<Self> {
        let mut out = Vec::new();
        if self.ops.len() > 1 {
            for i in 0..self.ops.len() {
                let mut w = self.clone();
                w.ops = vec![self.ops[i]];
                out.push(w);
            }
        }
        for side in 0..2 {
            let o = if side == 0 { &self.a } else { &self.b };
            for i in 0..o.len() {
                let mut w = self.clone();
                if side == 0 { w.a.remove(i); } else { w.b.remove(i); }
                out.push(w);
                for h in 1..o[i].len() {
                    let mut w = self.clone();
                    if side == 0 { w.a[i].remove(h); } else { w.b[i].remove(h); }
                    out.push(w);
                }
            }
        }
        if self.f32_ {
            let mut w = self.clone();
            w.f32_ = false;
            out.push(w);
        }
        if self.pairing != 0 {
            let mut w = self.clone();
            w.pairing = 0;
            out.push(w);
        }
        // move to small coordinates
        if let (Some(ba), bb) = (geom::bbox(&self.a), geom::bbox(&self.b)) {
            let (mx, my) = match bb {
                Some(bb) => (ba.0.min(bb.0), ba.1.min(bb.1)),
                None => (ba.0, ba.1),
            };
            if mx != 0.0 || my != 0.0 {
                let mut w = self.clone();
                w.a = geom::translate(&self.a, -mx, -my);
                w.b = geom::translate(&self.b, -mx, -my);
                out.push(w);
            }
        }
        out
    }

    fn signature(&self) -> String {
        let mut h = LogHash::new();
        h.add_bytes(geom::wkt(&self.a).as_bytes());
        h.add_bytes(geom::wkt(&self.b).as_bytes());
        format!("c09:{:016x}", h.0)
    }
}
