//! Second simulator: Miri (Tree Borrows, many seeds). One Miri seed = one schedule with
//! preemption at arbitrary basic blocks, one address layout, one set of hash keys, and (through
//! those hash keys) one scenario. Runs the separate crate /verif/miri against /repo/lib.

use crate::batch::verif_dir;
use serde_json::{json, Value};
use std::process::{Command, Stdio};
use std::time::Instant;

pub struct MiriReport {
    pub executions: u64,
    pub violations: u64,
    pub json: Value,
}

const FLAGS: &str = "-Zmiri-tree-borrows -Zmiri-preemption-rate=0.1 -Zmiri-ignore-leaks";

fn invoke(scn: &str, base: u64, seed_flag: &str) -> Option<(String, bool)> {
    let out = Command::new("cargo")
        .args(["+nightly", "miri", "run", "--offline", "--", scn, &base.to_string()])
        .current_dir(format!("{}/miri", verif_dir()))
        .env("MIRIFLAGS", format!("{} {}", FLAGS, seed_flag))
        .env("CARGO_NET_OFFLINE", "true")
        .stdin(Stdio::null())
        .output()
        .ok()?;
    let text = format!("{}{}", String::from_utf8_lossy(&out.stdout), String::from_utf8_lossy(&out.stderr));
    Some((text, out.status.success()))
}

fn findings(text: &str) -> Vec<String> {
    text.lines()
        .filter(|l| l.starts_with("MIRI-VIOLATION") || l.starts_with("error: Undefined Behavior") || l.starts_with("error: deadlock")
            || l.starts_with("error: abnormal termination") || l.contains("panicked at"))
        .map(|l| l.chars().take(300).collect())
        .collect()
}

/// Runs `seeds` Miri executions of scenario `scn`; prints VIOLATION lines itself.
pub fn run(prop: &str, scn: &str, base: u64, seeds: u64) -> MiriReport {
    let t0 = Instant::now();
    let res = invoke(scn, base, &format!("-Zmiri-many-seeds=0..{}", seeds));
    let (text, ok) = match res {
        Some(x) => x,
        None => {
            println!("note: Miri engine unavailable (cargo +nightly miri could not be started); native engine only");
            return MiriReport { executions: 0, violations: 0, json: json!({"available": false}) };
        }
    };
    let done = text.lines().filter(|l| l.starts_with(&format!("miri-scn {} ", scn))).count() as u64;
    let failing: Vec<u64> = text.lines().filter_map(|l| l.strip_prefix("FAILING SEED: ").and_then(|s| s.trim().parse().ok())).collect();
    let found = findings(&text);
    let mut violations = 0;
    if !found.is_empty() {
        let _ = std::fs::create_dir_all(format!("{}/replays", verif_dir()));
        let k = failing.first().cloned();
        let path = format!("{}/replays/{}-miri-{}-{}.json", verif_dir(), prop, base, k.map(|k| k.to_string()).unwrap_or_else(|| "x".into()));
        let file = json!({"property": prop, "engine": "miri", "scenario": scn, "argv_seed": base, "miri_seed": k, "miriflags": FLAGS, "findings": found});
        let _ = std::fs::write(&path, serde_json::to_string_pretty(&file).unwrap());
        for f in found.iter().take(3) {
            println!("violation (Miri engine) {}", f);
        }
        println!("VIOLATION property={} replay={}", prop, path);
        violations = 1;
    } else if !ok {
        let tail: Vec<&str> = text.lines().rev().take(12).collect();
        println!("note: Miri run ended unsuccessfully without a recognisable finding (treated as harness trouble, not as a violation):");
        for l in tail.iter().rev() {
            println!("    {}", l);
        }
    }
    let wall = t0.elapsed().as_secs_f64();
    MiriReport {
        executions: done,
        violations,
        json: json!({"available": true, "scenario": scn, "executions_completed": done, "seeds_requested": seeds, "findings": found, "exit_ok": ok,
            "flags": FLAGS, "wall_s": wall, "executions_per_hour": (done as f64 / wall.max(1e-9) * 3600.0) as u64,
            "what_one_seed_decides": "thread schedule with preemption at arbitrary basic blocks, allocation addresses, hash keys, and (via the hash keys) the scenario",
            "checked": "data races, use-after-free, invalid references under Tree Borrows, uninitialised reads, plus the scenario's own oracle (results equal the isolated reference / the BTreeMap model)"}),
    }
}

/// `check replay <file>` for a Miri finding.
pub fn replay(v: &Value) -> i32 {
    let scn = v["scenario"].as_str().unwrap_or("c12");
    let base = v["argv_seed"].as_u64().unwrap_or(1);
    let flag = match v["miri_seed"].as_u64() {
        Some(k) => format!("-Zmiri-seed={}", k),
        None => "-Zmiri-many-seeds=0..16".to_string(),
    };
    match invoke(scn, base, &flag) {
        None => {
            println!("HARNESS-ERROR Miri unavailable");
            2
        }
        Some((text, _)) => {
            let found = findings(&text);
            if found.is_empty() {
                println!("no violation on this tree");
                0
            } else {
                for f in found.iter().take(5) {
                    println!("violation (Miri engine) {}", f);
                }
                println!("VIOLATION property={} replay=(this file)", v["property"].as_str().unwrap_or("?"));
                1
            }
        }
    }
}
