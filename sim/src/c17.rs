//! C17 — the splay map/set against a reference sorted map, for seeded operation histories,
//! with held references, cancelled consumption, heap faults and thread migration.

use crate::batch::{Stats, Tier, Verdict, Violation, World};
use crate::heap::{self, Policy, FILLS, PLACES};
use crate::rng::{LogHash, Rng};
use geo_booleanop::splay::{SplaySet, SplayTree};
use serde_json::{json, Value};
use std::cmp::Ordering;
use std::collections::BTreeMap;
use std::panic::{catch_unwind, AssertUnwindSafe};
use std::sync::atomic::{AtomicU64, Ordering::Relaxed};
use std::sync::{Arc, Mutex};

// ------------------------------------------------------------------ instrumented element types

const MAGIC: u32 = 0x5EED_C0DE;

pub struct Ledger {
    /// per serial: 1 = alive, 2 = dropped
    state: Vec<u8>,
    pub double_drops: u64,
    pub garbage_drops: u64,
}
pub static LEDGER: Mutex<Ledger> = Mutex::new(Ledger { state: Vec::new(), double_drops: 0, garbage_drops: 0 });

fn ledger_reset() {
    let mut l = LEDGER.lock().unwrap_or_else(|e| e.into_inner());
    l.state.clear();
    l.double_drops = 0;
    l.garbage_drops = 0;
}
fn ledger_new() -> u32 {
    let mut l = LEDGER.lock().unwrap_or_else(|e| e.into_inner());
    l.state.push(1);
    (l.state.len() - 1) as u32
}
fn ledger_drop(serial: u32, magic: u32) {
    let mut l = LEDGER.lock().unwrap_or_else(|e| e.into_inner());
    if magic != MAGIC || serial as usize >= l.state.len() {
        l.garbage_drops += 1;
        return;
    }
    if l.state[serial as usize] == 2 {
        l.double_drops += 1;
    }
    l.state[serial as usize] = 2;
}
fn ledger_alive() -> u64 {
    let l = LEDGER.lock().unwrap_or_else(|e| e.into_inner());
    l.state.iter().filter(|s| **s == 1).count() as u64
}

pub struct K {
    pub id: u32,
    serial: u32,
    magic: u32,
}
impl K {
    fn new(id: u32) -> K {
        K { id, serial: heap::off(ledger_new), magic: MAGIC }
    }
    fn sane(&self) -> bool {
        self.magic == MAGIC
    }
}
impl Drop for K {
    fn drop(&mut self) {
        let (s, m) = (self.serial, self.magic);
        heap::off(|| ledger_drop(s, m));
    }
}
impl std::fmt::Debug for K {
    fn fmt(&self, f: &mut std::fmt::Formatter) -> std::fmt::Result {
        write!(f, "K{}", self.id)
    }
}
pub struct V {
    pub val: u64,
    serial: u32,
    magic: u32,
}
impl V {
    fn new(val: u64) -> V {
        V { val, serial: heap::off(ledger_new), magic: MAGIC }
    }
}
impl Drop for V {
    fn drop(&mut self) {
        let (s, m) = (self.serial, self.magic);
        heap::off(|| ledger_drop(s, m));
    }
}
impl std::fmt::Debug for V {
    fn fmt(&self, f: &mut std::fmt::Formatter) -> std::fmt::Result {
        write!(f, "V{}", self.val)
    }
}

type Cmp = Box<dyn Fn(&K, &K) -> Ordering + Send>;

/// Migration hands the container to another thread while this one waits: exactly one thread touches it at any
/// time, whatever auto traits the container type happens to have (a change that stores raw pointers in the tree
/// makes it `!Send`; that is not what C17 is about and must not stop the harness from building).
struct Handoff<T>(T);
unsafe impl<T> Send for Handoff<T> {}
type Map = SplayTree<K, V, Cmp>;
type Set = SplaySet<K, Cmp>;

struct CmpState {
    rank: Vec<u32>,
    calls: AtomicU64,
    garbage: AtomicU64,
}

fn make_cmp(cs: &Arc<CmpState>) -> Cmp {
    let cs = cs.clone();
    Box::new(move |a: &K, b: &K| {
        cs.calls.fetch_add(1, Relaxed);
        if !a.sane() || !b.sane() || a.id as usize >= cs.rank.len() || b.id as usize >= cs.rank.len() {
            cs.garbage.fetch_add(1, Relaxed);
            return (a.id, a.serial).cmp(&(b.id, b.serial));
        }
        cs.rank[a.id as usize].cmp(&cs.rank[b.id as usize])
    })
}

// ------------------------------------------------------------------ world

#[derive(Clone, Debug, PartialEq)]
pub enum Op {
    Insert(u32),
    Remove(u32),
    Get(u32),
    GetMutWrite(u32),
    Contains(u32),
    FindKey(u32),
    Next(u32),
    Prev(u32),
    Min,
    Max,
    Clear,
    Extend(Vec<u32>),
    /// `extend` from an iterator that panics after yielding the first j items; the unwind is caught and the
    /// container keeps being used (cancellation inside a bulk operation)
    ExtendFaulty(Vec<u32>, u32),
    Index(u32),
    IndexMutWrite(u32),
    Debug,
    /// lookups through `&self` whose returned references are all kept and re-read
    ReadPhase(Vec<(u8, u32)>),
    /// the next n operations run on another thread
    Migrate(u32),
    /// consume the container: `take` items following `pattern` (true = front), then abandon
    /// the iterator; continue with a fresh empty container
    Consume { pattern: Vec<bool>, take: u32 },
}

#[derive(Clone, Debug)]
pub struct C17World {
    pub set: bool,
    pub universe: u32,
    /// rank[id] under the comparator
    pub rank: Vec<u32>,
    pub heap: u32,
    pub heap_seed: u64,
    pub ops: Vec<Op>,
    pub end_clear: bool,
}

fn op_json(o: &Op) -> Value {
    match o {
        Op::Insert(k) => json!(["insert", k]),
        Op::Remove(k) => json!(["remove", k]),
        Op::Get(k) => json!(["get", k]),
        Op::GetMutWrite(k) => json!(["get_mut_write", k]),
        Op::Contains(k) => json!(["contains", k]),
        Op::FindKey(k) => json!(["find_key", k]),
        Op::Next(k) => json!(["next", k]),
        Op::Prev(k) => json!(["prev", k]),
        Op::Min => json!(["min"]),
        Op::Max => json!(["max"]),
        Op::Clear => json!(["clear"]),
        Op::Extend(ks) => json!(["extend", ks]),
        Op::ExtendFaulty(ks, j) => json!(["extend_iterator_panics_after", ks, j]),
        Op::Index(k) => json!(["index", k]),
        Op::IndexMutWrite(k) => json!(["index_mut_write", k]),
        Op::Debug => json!(["debug"]),
        Op::ReadPhase(ls) => json!(["read_phase", ls]),
        Op::Migrate(n) => json!(["migrate", n]),
        Op::Consume { pattern, take } => json!(["consume", pattern, take]),
    }
}
fn op_from(v: &Value) -> Result<Op, String> {
    let name = v[0].as_str().ok_or("op name")?;
    let k = || v[1].as_u64().map(|x| x as u32).ok_or_else(|| "op arg".to_string());
    Ok(match name {
        "insert" => Op::Insert(k()?),
        "remove" => Op::Remove(k()?),
        "get" => Op::Get(k()?),
        "get_mut_write" => Op::GetMutWrite(k()?),
        "contains" => Op::Contains(k()?),
        "find_key" => Op::FindKey(k()?),
        "next" => Op::Next(k()?),
        "prev" => Op::Prev(k()?),
        "min" => Op::Min,
        "max" => Op::Max,
        "clear" => Op::Clear,
        "extend" => Op::Extend(v[1].as_array().ok_or("extend")?.iter().map(|x| x.as_u64().unwrap_or(0) as u32).collect()),
        "extend_iterator_panics_after" => Op::ExtendFaulty(
            v[1].as_array().ok_or("extend")?.iter().map(|x| x.as_u64().unwrap_or(0) as u32).collect(), v[2].as_u64().unwrap_or(0) as u32),
        "index" => Op::Index(k()?),
        "index_mut_write" => Op::IndexMutWrite(k()?),
        "debug" => Op::Debug,
        "read_phase" => Op::ReadPhase(
            v[1].as_array().ok_or("read_phase")?.iter()
                .map(|x| (x[0].as_u64().unwrap_or(0) as u8, x[1].as_u64().unwrap_or(0) as u32)).collect()),
        "migrate" => Op::Migrate(k()?),
        "consume" => Op::Consume {
            pattern: v[1].as_array().ok_or("consume")?.iter().map(|x| x.as_bool().unwrap_or(true)).collect(),
            take: v[2].as_u64().ok_or("take")? as u32,
        },
        _ => return Err(format!("unknown op {}", name)),
    })
}

const N_LOOKUP_KINDS: u8 = 7; // get, find_key, next, prev, min, max, contains

fn gen_ops(r: &mut Rng, universe: u32, len: usize, set: bool) -> Vec<Op> {
    // swarm: per-run weights
    let wchoices = [0u64, 0, 1, 1, 2, 5];
    let mut w: Vec<u64> = (0..18).map(|_| *r.pick(&wchoices)).collect();
    w[0] = w[0].max(2); // insert always possible
    if r.chance(1, 2) {
        w[10] = 0; // clear is rare
    }
    if set {
        for i in [3usize, 4, 12, 13, 14] {
            w[i] = 0; // no get / get_mut / index / debug on sets
        }
        w[5] = w[5].max(w[2]); // contains instead
    }
    let total: u64 = w.iter().sum();
    // key choice: uniform, or biased runs of ascending/descending ids
    let mono = r.below(4); // 0,1: uniform; 2: ascending runs; 3: descending runs
    let mut cursor = r.below(universe as u64) as u32;
    let mut ops = Vec::with_capacity(len);
    let mut key = |r: &mut Rng| -> u32 {
        match mono {
            2 if r.chance(7, 8) => {
                cursor = (cursor + 1) % universe;
                cursor
            }
            3 if r.chance(7, 8) => {
                cursor = (cursor + universe - 1) % universe;
                cursor
            }
            _ => {
                cursor = r.below(universe as u64) as u32;
                cursor
            }
        }
    };
    while ops.len() < len {
        let mut t = r.below(total);
        let mut which = 0;
        for (i, wi) in w.iter().enumerate() {
            if t < *wi {
                which = i;
                break;
            }
            t -= wi;
        }
        let op = match which {
            0 => Op::Insert(key(r)),
            1 => Op::Remove(key(r)),
            2 => Op::Get(key(r)),
            3 => Op::GetMutWrite(key(r)),
            4 => Op::Index(key(r)),
            5 => Op::Contains(key(r)),
            6 => Op::FindKey(key(r)),
            7 => Op::Next(key(r)),
            8 => Op::Prev(key(r)),
            9 => {
                if r.chance(1, 2) {
                    Op::Min
                } else {
                    Op::Max
                }
            }
            10 => Op::Clear,
            11 => {
                // small batches, and now and then a large one with repeated keys (drawn with replacement)
                let n = if r.chance(1, 3) { 12 + r.below(40) as usize } else { 1 + r.below(8) as usize };
                let ks: Vec<u32> = (0..n).map(|_| key(r)).collect();
                if r.chance(1, 5) {
                    let j = r.below(n as u64 + 1) as u32;
                    Op::ExtendFaulty(ks, j)
                } else {
                    Op::Extend(ks)
                }
            }
            12 => Op::IndexMutWrite(key(r)),
            13 | 14 => Op::Debug,
            15 | 16 => {
                let n = 2 + r.below(10) as usize;
                Op::ReadPhase((0..n).map(|_| (r.below(N_LOOKUP_KINDS as u64) as u8, key(r))).collect())
            }
            _ => {
                if r.chance(1, 3) {
                    Op::Migrate(1 + r.below(6) as u32)
                } else {
                    let n = r.below(12) as usize;
                    let style = r.below(3);
                    let pattern = (0..n).map(|_| match style {
                        0 => true,
                        1 => false,
                        _ => r.chance(1, 2),
                    }).collect();
                    Op::Consume { pattern, take: r.below(n as u64 + 2) as u32 }
                }
            }
        };
        ops.push(op);
    }
    ops
}

impl C17World {
    fn ops_hash(&self) -> u64 {
        let mut h = LogHash::new();
        h.add(self.set as u64);
        h.add_bytes(serde_json::to_string(&self.ops.iter().map(op_json).collect::<Vec<_>>()).unwrap().as_bytes());
        for x in &self.rank {
            h.add(*x as u64);
        }
        h.0
    }
}

// ------------------------------------------------------------------ execution

struct Fail(&'static str, String);
fn fail<T>(class: &'static str, f: impl FnOnce() -> String) -> Result<T, Fail> {
    Err(Fail(class, heap::off(f)))
}

/// model: rank -> (id, val)
type Model = BTreeMap<u32, (u32, u64)>;

struct Ctx<'a> {
    w: &'a C17World,
    pol: Policy,
    model: Model,
    /// serial of the key object stored for each rank (a replaced entry keeps its first key, as in BTreeMap)
    kser: BTreeMap<u32, u32>,
    next_val: u64,
    log: LogHash,
    // local counters, flushed to Stats after the run
    c: BTreeMap<&'static str, u64>,
    shapes: Vec<u64>,
    held_max: u64,
}
impl<'a> Ctx<'a> {
    fn cnt(&mut self, k: &'static str) {
        *self.c.entry(k).or_insert(0) += 1;
    }
    fn rank(&self, id: u32) -> u32 {
        self.w.rank[id as usize]
    }
    fn succ(&self, id: u32) -> Option<(u32, u64)> {
        let rk = self.rank(id);
        self.model.range(rk + 1..).next().map(|(_, v)| *v)
    }
    fn pred(&self, id: u32) -> Option<(u32, u64)> {
        let rk = self.rank(id);
        self.model.range(..rk).next_back().map(|(_, v)| *v)
    }
    /// the returned key must be the stored key object, not a look-alike (probe, or a replaced duplicate)
    fn stored(&self, k: &K, opi: usize, what: &str) -> Result<(), Fail> {
        if k.sane() && self.kser.get(&self.rank(k.id)) == Some(&k.serial) {
            Ok(())
        } else {
            let (id, ser, want) = (k.id, k.serial, self.kser.get(&self.rank(k.id)).cloned());
            fail("wrong_key_object", || format!("op #{} {}: returned key K{} is object #{} but the container stores object {:?} for it", opi, what, id, ser, want))
        }
    }
    fn fresh_val(&mut self) -> u64 {
        self.next_val += 1;
        self.next_val
    }
}

fn kv_eq(got: Option<(&K, &V)>, want: Option<(u32, u64)>) -> bool {
    match (got, want) {
        (None, None) => true,
        (Some((k, v)), Some((id, val))) => k.sane() && k.id == id && v.val == val,
        _ => false,
    }
}
fn show_kv(got: Option<(&K, &V)>) -> String {
    match got {
        None => "None".into(),
        Some((k, v)) => format!("Some(K{} magic_ok={}, V{})", k.id, k.sane(), v.val),
    }
}

fn check_len_map(cx: &Ctx, t: &Map, i: usize) -> Result<(), Fail> {
    if t.len() != cx.model.len() || t.is_empty() != cx.model.is_empty() {
        return fail("len_mismatch", || format!("after op #{}: len()={} is_empty()={} but {} keys are stored", i, t.len(), t.is_empty(), cx.model.len()));
    }
    Ok(())
}

/// Parses the derived Debug rendering; returns in-order key ids.
fn parse_debug(s: &str) -> Result<(Vec<u32>, String), String> {
    struct P<'a> {
        b: &'a [u8],
        i: usize,
        out: Vec<u32>,
        shape: String,
        depth: usize,
    }
    impl<'a> P<'a> {
        fn eat(&mut self, lit: &str) -> Result<(), String> {
            if self.b[self.i..].starts_with(lit.as_bytes()) {
                self.i += lit.len();
                Ok(())
            } else {
                Err(format!("expected {:?} at {}", lit, self.i))
            }
        }
        fn num(&mut self) -> Result<u32, String> {
            let s = self.i;
            while self.i < self.b.len() && self.b[self.i].is_ascii_digit() {
                self.i += 1;
            }
            std::str::from_utf8(&self.b[s..self.i]).unwrap().parse().map_err(|_| format!("number at {}", s))
        }
        fn opt(&mut self) -> Result<(), String> {
            if self.b[self.i..].starts_with(b"None") {
                self.i += 4;
                self.shape.push('.');
                return Ok(());
            }
            self.shape.push('(');
            self.depth += 1;
            if self.depth > 5000 {
                return Err("too deep".into());
            }
            self.eat("Some(Node { key: K")?;
            let k = self.num()?;
            self.eat(", value: ")?;
            if self.b[self.i..].starts_with(b"()") {
                self.i += 2;
            } else {
                self.eat("V")?;
                self.num()?;
            }
            self.eat(", left: ")?;
            self.opt()?;
            self.out.push(k);
            self.shape.push_str(&k.to_string());
            self.eat(", right: ")?;
            self.opt()?;
            self.eat(" })")?;
            self.shape.push(')');
            self.depth -= 1;
            Ok(())
        }
    }
    let mut p = P { b: s.as_bytes(), i: 0, out: vec![], shape: String::new(), depth: 0 };
    p.opt()?;
    if p.i != s.len() {
        return Err("trailing text".into());
    }
    Ok((p.out, p.shape))
}

fn exec_map(cx: &mut Ctx, t: &mut Map, ops: &[Op], base: usize) -> Result<(), Fail> {
    let pol = cx.pol;
    let mut i = 0;
    while i < ops.len() {
        let opi = base + i;
        let op = &ops[i];
        i += 1;
        match op {
            Op::Insert(id) => {
                let val = cx.fresh_val();
                let (k, v) = (K::new(*id), V::new(val));
                let ks = k.serial;
                let old = heap::with_policy(pol, || t.insert(k, v));
                let want = cx.model.insert(cx.rank(*id), (*id, val)).map(|x| x.1);
                cx.kser.entry(cx.rank(*id)).or_insert(ks);
                let got = old.as_ref().map(|v| v.val);
                cx.log.add(got.unwrap_or(u64::MAX));
                if got != want {
                    return fail("wrong_return", || format!("op #{} insert(K{}): returned {:?}, reference {:?}", opi, id, got, want));
                }
                // a replaced entry keeps its *old* key object; the model keeps the id, which is equal
                if want.is_some() {
                    cx.cnt("probe_insert_replace");
                }
                heap::with_policy(pol, || drop(old));
            }
            Op::Remove(id) => {
                let probe = K::new(*id);
                let two_children = {
                    let rk = cx.rank(*id);
                    cx.model.contains_key(&rk) && cx.model.range(..rk).next().is_some() && cx.model.range(rk + 1..).next().is_some()
                };
                let got = heap::with_policy(pol, || t.remove(&probe));
                let want = cx.model.remove(&cx.rank(*id)).map(|x| x.1);
                cx.kser.remove(&cx.rank(*id));
                let g = got.as_ref().map(|v| v.val);
                cx.log.add(g.unwrap_or(u64::MAX));
                if g != want {
                    return fail("wrong_return", || format!("op #{} remove(K{}): returned {:?}, reference {:?}", opi, id, g, want));
                }
                if want.is_some() && two_children {
                    cx.cnt("probe_remove_with_both_neighbours");
                }
                if want.is_none() {
                    cx.cnt("probe_remove_absent");
                }
            }
            Op::Get(id) | Op::Index(id) => {
                let probe = K::new(*id);
                let want = cx.model.get(&cx.rank(*id)).map(|x| x.1);
                if let Op::Index(_) = op {
                    let r = heap::with_policy(pol, || catch_unwind(AssertUnwindSafe(|| t[&probe].val)));
                    match (r, want) {
                        (Ok(g), Some(w)) if g == w => {}
                        (Err(p), None) => {
                            cx.cnt("probe_index_absent_panics");
                            heap::with_policy(pol, || drop(p));
                        }
                        (Ok(g), w) => return fail("wrong_return", || format!("op #{} index(K{}): returned {}, reference {:?}", opi, id, g, w)),
                        (Err(_), Some(w)) => return fail("wrong_return", || format!("op #{} index(K{}): panicked, reference holds {}", opi, id, w)),
                    }
                } else {
                    let got = heap::with_policy(pol, || t.get(&probe)).map(|v| v.val);
                    cx.log.add(got.unwrap_or(u64::MAX));
                    if got != want {
                        return fail("wrong_return", || format!("op #{} get(K{}): returned {:?}, reference {:?}", opi, id, got, want));
                    }
                    if want.is_none() {
                        cx.cnt("probe_lookup_absent");
                    }
                }
            }
            Op::GetMutWrite(id) | Op::IndexMutWrite(id) => {
                let probe = K::new(*id);
                let rk = cx.rank(*id);
                let want = cx.model.get(&rk).map(|x| x.1);
                let nv = cx.fresh_val();
                if let (Op::IndexMutWrite(_), None) = (op, want) {
                    let r = heap::with_policy(pol, || catch_unwind(AssertUnwindSafe(|| t[&probe].val = nv)));
                    match r {
                        Err(p) => heap::with_policy(pol, || drop(p)),
                        Ok(()) => return fail("wrong_return", || format!("op #{} index_mut(K{}) on an absent key did not panic", opi, id)),
                    }
                } else {
                    let got = heap::with_policy(pol, || t.get_mut(&probe));
                    let g = got.as_ref().map(|v| v.val);
                    if g != want {
                        return fail("wrong_return", || format!("op #{} get_mut(K{}): returned {:?}, reference {:?}", opi, id, g, want));
                    }
                    if let Some(v) = got {
                        v.val = nv;
                        cx.model.insert(rk, (*id, nv));
                    }
                }
            }
            Op::Contains(id) => {
                let probe = K::new(*id);
                let got = heap::with_policy(pol, || t.contains(&probe));
                let want = cx.model.contains_key(&cx.rank(*id));
                cx.log.add(got as u64);
                if got != want {
                    return fail("wrong_return", || format!("op #{} contains(K{}): returned {}, reference {}", opi, id, got, want));
                }
            }
            Op::FindKey(id) => {
                let probe = K::new(*id);
                let gk = heap::with_policy(pol, || t.find_key(&probe));
                let got = gk.map(|k| (k.id, k.sane()));
                let want = cx.model.get(&cx.rank(*id)).map(|x| (x.0, true));
                if got != want {
                    return fail("wrong_return", || format!("op #{} find_key(K{}): returned {:?}, reference {:?}", opi, id, got, want));
                }
                if let Some(k) = gk {
                    cx.stored(k, opi, "find_key")?;
                }
            }
            Op::Next(id) | Op::Prev(id) => {
                let probe = K::new(*id);
                let is_next = matches!(op, Op::Next(_));
                let got = heap::with_policy(pol, || if is_next { t.next(&probe) } else { t.prev(&probe) });
                let want = if is_next { cx.succ(*id) } else { cx.pred(*id) };
                cx.log.add(want.map(|x| x.1).unwrap_or(u64::MAX));
                if !cx.model.contains_key(&cx.rank(*id)) {
                    cx.cnt("probe_neighbour_of_absent_key");
                }
                if !kv_eq(got, want) {
                    let s = show_kv(got);
                    return fail("wrong_neighbour", || format!("op #{} {}(K{}): returned {}, reference {:?}", opi, if is_next { "next" } else { "prev" }, id, s, want));
                }
                if let Some((k, _)) = got {
                    cx.stored(k, opi, "next/prev")?;
                }
            }
            Op::Min | Op::Max => {
                let is_min = matches!(op, Op::Min);
                let gk = heap::with_policy(pol, || if is_min { t.min() } else { t.max() });
                let got = gk.map(|k| k.id);
                let want = if is_min { cx.model.values().next() } else { cx.model.values().next_back() }.map(|x| x.0);
                if got != want {
                    return fail("wrong_return", || format!("op #{} {}: returned {:?}, reference {:?}", opi, if is_min { "min" } else { "max" }, got, want));
                }
                if let Some(k) = gk {
                    cx.stored(k, opi, "min/max")?;
                }
            }
            Op::Clear => {
                heap::with_policy(pol, || t.clear());
                cx.model.clear();
                cx.kser.clear();
            }
            Op::Extend(ids) => {
                let mut items = Vec::new();
                for id in ids {
                    let val = cx.fresh_val();
                    let k = K::new(*id);
                    cx.kser.entry(cx.rank(*id)).or_insert(k.serial);
                    items.push((k, V::new(val)));
                    cx.model.insert(cx.rank(*id), (*id, val));
                }
                heap::with_policy(pol, || t.extend(items));
            }
            Op::ExtendFaulty(ids, j) => {
                let j = (*j as usize).min(ids.len());
                let mut items = Vec::new();
                for id in &ids[..j] {
                    let val = cx.fresh_val();
                    let k = K::new(*id);
                    cx.kser.entry(cx.rank(*id)).or_insert(k.serial);
                    items.push((k, V::new(val)));
                    cx.model.insert(cx.rank(*id), (*id, val));
                }
                let mut src = items.into_iter();
                let mut left = j;
                let faulty = std::iter::from_fn(move || {
                    if left == 0 {
                        std::panic::panic_any("simulated: the caller's iterator failed");
                    }
                    left -= 1;
                    src.next()
                });
                let r = heap::with_policy(pol, || catch_unwind(AssertUnwindSafe(|| t.extend(faulty))));
                match r {
                    Err(p) => heap::with_policy(pol, || drop(p)),
                    Ok(()) => return fail("wrong_return", || format!("op #{} extend from a panicking iterator returned normally", opi)),
                }
                cx.cnt("fault_bulk_operation_cancelled_by_panicking_iterator");
            }
            Op::Debug => {
                if t.len() <= 48 {
                    let s = heap::off(|| format!("{:?}", t));
                    let (keys, shape) = match parse_debug(&s) {
                        Ok(k) => k,
                        Err(e) => return fail("debug_rendering", || format!("op #{}: Debug rendering not a tree: {} in {:?}", opi, e, s)),
                    };
                    let want: Vec<u32> = cx.model.values().map(|x| x.0).collect();
                    if keys != want {
                        return fail("structure", || format!("op #{}: in-order keys of the rendered tree {:?}, reference {:?}", opi, keys, want));
                    }
                    if cx.w.universe <= 6 {
                        // shape + key set, keys named by rank so that comparator permutations coincide
                        let mut h = LogHash::new();
                        h.add(cx.w.universe as u64);
                        let ranked: String = shape.split_inclusive(|c: char| !c.is_ascii_digit()).map(|tok| {
                            let digits: String = tok.chars().filter(|c| c.is_ascii_digit()).collect();
                            let rest: String = tok.chars().filter(|c| !c.is_ascii_digit()).collect();
                            if digits.is_empty() { rest } else { format!("{}{}", cx.w.rank[digits.parse::<usize>().unwrap()], rest) }
                        }).collect();
                        h.add_bytes(ranked.as_bytes());
                        cx.shapes.push(h.0);
                    }
                }
            }
            Op::ReadPhase(lookups) => {
                read_phase_map(cx, &*t, lookups, opi)?;
            }
            Op::Migrate(n) => {
                let n = (*n as usize).min(ops.len() - i);
                let slice = &ops[i..i + n];
                // no nested migration, and Index panics stay on this thread
                if slice.iter().all(|o| !matches!(o, Op::Migrate(_))) {
                    let b = base + i;
                    let pass = Handoff((&mut *cx, &mut *t));
                    let r = std::thread::scope(|s| s.spawn(move || { let p = pass; let Handoff((cx2, t2)) = p; exec_map(cx2, t2, slice, b) }).join());
                    match r {
                        Ok(r) => r?,
                        Err(_) => return fail("panic", || format!("operations #{}.. panicked on the second thread", b)),
                    }
                    cx.cnt("fault_migrated_segments");
                    i += n;
                }
            }
            Op::Consume { pattern, take } => {
                let fresh: Map = SplayTree::new(make_cmp_from(cx));
                let old = std::mem::replace(t, fresh);
                consume_map(cx, old, pattern, *take as usize, opi)?;
                cx.model.clear();
                cx.kser.clear();
            }
        }
        check_len_map(cx, t, opi)?;
    }
    Ok(())
}

fn make_cmp_from(_cx: &Ctx) -> Cmp {
    // the comparator state of the current run (set by `run`); migration threads inherit it explicitly
    let cs = CURRENT_CMP.lock().unwrap_or_else(|e| e.into_inner()).clone().expect("cmp state");
    make_cmp(&cs)
}
static CURRENT_CMP: Mutex<Option<Arc<CmpState>>> = Mutex::new(None);

fn consume_map(cx: &mut Ctx, t: Map, pattern: &[bool], take: usize, opi: usize) -> Result<(), Fail> {
    let pol = cx.pol;
    let n = cx.model.len();
    let mut expect: std::collections::VecDeque<(u32, u64)> = cx.model.values().cloned().collect();
    let alive_before = heap::off(ledger_alive);
    let mut it = heap::with_policy(pol, || t.into_iter());
    let mut taken = 0usize;
    let mut dirs = 0u8;
    for step in 0..take {
        let front = pattern.get(step % pattern.len().max(1)).cloned().unwrap_or(true);
        dirs |= if front { 1 } else { 2 };
        let hint = it.size_hint();
        if hint != (n - taken, Some(n - taken)) || it.len() != n - taken {
            return fail("size_hint", || format!("op #{} consumption: after {} of {} items size_hint()={:?} len()={}", opi, taken, n, hint, n - taken));
        }
        let got = heap::with_policy(pol, || if front { it.next() } else { it.next_back() });
        let want = if front { expect.pop_front() } else { expect.pop_back() };
        let g = got.as_ref().map(|(k, v)| (k.id, v.val));
        cx.log.add(g.map(|x| x.1).unwrap_or(u64::MAX));
        if g != want {
            return fail("wrong_iteration", || format!("op #{} consumption step {} ({}): yielded {:?}, reference {:?}", opi, step, if front { "front" } else { "back" }, g, want));
        }
        if got.is_none() {
            break;
        }
        taken += 1;
        heap::with_policy(pol, || drop(got));
    }
    if dirs == 3 {
        cx.cnt("probe_mixed_direction_consumption");
    }
    if taken < n {
        cx.cnt("fault_cancelled_consumption");
    }
    heap::with_policy(pol, || drop(it));
    // every item the container owned is gone exactly once (double drops are read from the ledger by the caller)
    let alive_after = heap::off(ledger_alive);
    let released = alive_before.saturating_sub(alive_after);
    if (released as usize) < 2 * n {
        *cx.c.entry("observed_items_not_released_after_consumption").or_insert(0) += (2 * n) as u64 - released;
    }
    Ok(())
}

fn read_phase_map(cx: &mut Ctx, t: &Map, lookups: &[(u8, u32)], opi: usize) -> Result<(), Fail> {
    let pol = cx.pol;
    // (reference to key, reference to value if any, expected id, expected value)
    let mut held: Vec<(&K, Option<&V>, u32, Option<u64>)> = Vec::new();
    let probes: Vec<K> = lookups.iter().map(|(_, id)| K::new(*id)).collect();
    for (j, (kind, id)) in lookups.iter().enumerate() {
        let probe = &probes[j];
        let here = cx.model.get(&cx.rank(*id)).cloned();
        match kind % N_LOOKUP_KINDS {
            0 => {
                let got = heap::with_policy(pol, || t.get(probe));
                if got.map(|v| v.val) != here.map(|x| x.1) {
                    return fail("wrong_return", || format!("op #{} read phase lookup {} get(K{}): {:?} vs reference {:?}", opi, j, id, got.map(|v| v.val), here));
                }
                // a value reference alone: remember it through a key reference obtained the same way
                if let (Some(v), Some(k)) = (got, heap::with_policy(pol, || t.find_key(probe))) {
                    held.push((k, Some(v), *id, here.map(|x| x.1)));
                }
            }
            1 | 6 => {
                let got = heap::with_policy(pol, || t.find_key(probe));
                if got.map(|k| k.id) != here.map(|x| x.0) {
                    return fail("wrong_return", || format!("op #{} read phase lookup {} find_key(K{}): {:?} vs reference {:?}", opi, j, id, got.map(|k| k.id), here));
                }
                if kind % N_LOOKUP_KINDS == 6 && heap::with_policy(pol, || t.contains(probe)) != here.is_some() {
                    return fail("wrong_return", || format!("op #{} read phase lookup {} contains(K{})", opi, j, id));
                }
                if let Some(k) = got {
                    held.push((k, None, *id, None));
                }
            }
            2 | 3 => {
                let is_next = kind % N_LOOKUP_KINDS == 2;
                let got = heap::with_policy(pol, || if is_next { t.next(probe) } else { t.prev(probe) });
                let want = if is_next { cx.succ(*id) } else { cx.pred(*id) };
                if !kv_eq(got, want) {
                    let s = show_kv(got);
                    return fail("wrong_neighbour", || format!("op #{} read phase lookup {} {}(K{}): {} vs reference {:?}", opi, j, if is_next { "next" } else { "prev" }, id, s, want));
                }
                if let (Some((k, v)), Some((wid, wval))) = (got, want) {
                    held.push((k, Some(v), wid, Some(wval)));
                }
            }
            _ => {
                let is_min = kind % N_LOOKUP_KINDS == 4;
                let got = heap::with_policy(pol, || if is_min { t.min() } else { t.max() });
                let want = if is_min { cx.model.values().next() } else { cx.model.values().next_back() }.map(|x| x.0);
                if got.map(|k| k.id) != want {
                    return fail("wrong_return", || format!("op #{} read phase lookup {} min/max: {:?} vs {:?}", opi, j, got.map(|k| k.id), want));
                }
                if let (Some(k), Some(w)) = (got, want) {
                    held.push((k, None, w, None));
                }
            }
        }
        // every reference handed out so far must still denote the same element
        for (hi, (k, v, id, val)) in held.iter().enumerate() {
            let okk = k.sane() && k.id == *id;
            let okv = match (v, val) {
                (Some(v), Some(val)) => v.magic == MAGIC && v.val == *val,
                _ => true,
            };
            if !okk || !okv {
                let (kid, ks) = (k.id, k.sane());
                let vv = v.map(|v| v.val);
                return fail("held_reference_changed", || format!(
                    "op #{} read phase: reference #{} handed out for K{} (value {:?}) reads K{} magic_ok={} value {:?} after lookup {}",
                    opi, hi, id, val, kid, ks, vv, j));
            }
        }
        cx.held_max = cx.held_max.max(held.len() as u64);
    }
    if held.len() >= 2 {
        cx.cnt("probe_read_phase_with_2plus_held_refs");
    }
    Ok(())
}

// ---- set flavour (SplaySet has the smaller API; the executor mirrors the map one)

fn exec_set(cx: &mut Ctx, t: &mut Set, ops: &[Op], base: usize) -> Result<(), Fail> {
    let pol = cx.pol;
    let mut i = 0;
    while i < ops.len() {
        let opi = base + i;
        let op = &ops[i];
        i += 1;
        match op {
            Op::Insert(id) => {
                let k = K::new(*id);
                let ks = k.serial;
                let got = heap::with_policy(pol, || t.insert(k));
                let want = cx.model.insert(cx.rank(*id), (*id, 0)).is_none();
                cx.kser.entry(cx.rank(*id)).or_insert(ks);
                cx.log.add(got as u64);
                if got != want {
                    return fail("wrong_return", || format!("op #{} set.insert(K{}): returned {}, reference {}", opi, id, got, want));
                }
            }
            Op::Remove(id) => {
                let probe = K::new(*id);
                let got = heap::with_policy(pol, || t.remove(&probe));
                let want = cx.model.remove(&cx.rank(*id)).is_some();
                cx.kser.remove(&cx.rank(*id));
                cx.log.add(got as u64);
                if got != want {
                    return fail("wrong_return", || format!("op #{} set.remove(K{}): returned {}, reference {}", opi, id, got, want));
                }
            }
            Op::Contains(id) | Op::Get(id) | Op::Index(id) | Op::GetMutWrite(id) | Op::IndexMutWrite(id) => {
                let probe = K::new(*id);
                let got = heap::with_policy(pol, || t.contains(&probe));
                let want = cx.model.contains_key(&cx.rank(*id));
                cx.log.add(got as u64);
                if got != want {
                    return fail("wrong_return", || format!("op #{} set.contains(K{}): returned {}, reference {}", opi, id, got, want));
                }
            }
            Op::FindKey(id) => {
                let probe = K::new(*id);
                let gk = heap::with_policy(pol, || t.find(&probe));
                let got = gk.map(|k| k.id);
                let want = cx.model.get(&cx.rank(*id)).map(|x| x.0);
                if got != want {
                    return fail("wrong_return", || format!("op #{} set.find(K{}): returned {:?}, reference {:?}", opi, id, got, want));
                }
                if let Some(k) = gk {
                    cx.stored(k, opi, "set.find")?;
                }
            }
            Op::Next(id) | Op::Prev(id) => {
                let probe = K::new(*id);
                let is_next = matches!(op, Op::Next(_));
                let gk = heap::with_policy(pol, || if is_next { t.next(&probe) } else { t.prev(&probe) });
                let got = gk.map(|k| (k.id, k.sane()));
                let want = if is_next { cx.succ(*id) } else { cx.pred(*id) }.map(|x| (x.0, true));
                cx.log.add(want.map(|x| x.0 as u64).unwrap_or(u64::MAX));
                if got != want {
                    return fail("wrong_neighbour", || format!("op #{} set.{}(K{}): returned {:?}, reference {:?}", opi, if is_next { "next" } else { "prev" }, id, got, want));
                }
                if let Some(k) = gk {
                    cx.stored(k, opi, "set.next/prev")?;
                }
            }
            Op::Min | Op::Max => {
                let is_min = matches!(op, Op::Min);
                let got = heap::with_policy(pol, || if is_min { t.min() } else { t.max() }).map(|k| k.id);
                let want = if is_min { cx.model.values().next() } else { cx.model.values().next_back() }.map(|x| x.0);
                if got != want {
                    return fail("wrong_return", || format!("op #{} set.{}: returned {:?}, reference {:?}", opi, if is_min { "min" } else { "max" }, got, want));
                }
            }
            Op::Clear => {
                heap::with_policy(pol, || t.clear());
                cx.model.clear();
                cx.kser.clear();
            }
            Op::Extend(ids) => {
                let mut items = Vec::new();
                for id in ids {
                    let k = K::new(*id);
                    cx.kser.entry(cx.rank(*id)).or_insert(k.serial);
                    items.push(k);
                    cx.model.insert(cx.rank(*id), (*id, 0));
                }
                heap::with_policy(pol, || t.extend(items));
            }
            Op::ExtendFaulty(ids, j) => {
                let j = (*j as usize).min(ids.len());
                let mut items = Vec::new();
                for id in &ids[..j] {
                    let k = K::new(*id);
                    cx.kser.entry(cx.rank(*id)).or_insert(k.serial);
                    items.push(k);
                    cx.model.insert(cx.rank(*id), (*id, 0));
                }
                let mut src = items.into_iter();
                let mut left = j;
                let faulty = std::iter::from_fn(move || {
                    if left == 0 {
                        std::panic::panic_any("simulated: the caller's iterator failed");
                    }
                    left -= 1;
                    src.next()
                });
                let r = heap::with_policy(pol, || catch_unwind(AssertUnwindSafe(|| t.extend(faulty))));
                match r {
                    Err(p) => heap::with_policy(pol, || drop(p)),
                    Ok(()) => return fail("wrong_return", || format!("op #{} set.extend from a panicking iterator returned normally", opi)),
                }
                cx.cnt("fault_bulk_operation_cancelled_by_panicking_iterator");
            }
            Op::Debug => {}
            Op::ReadPhase(lookups) => {
                let t = &*t;
                let mut held: Vec<(&K, u32)> = Vec::new();
                let probes: Vec<K> = lookups.iter().map(|(_, id)| K::new(*id)).collect();
                for (j, (kind, id)) in lookups.iter().enumerate() {
                    let probe = &probes[j];
                    let (got, want) = match kind % 4 {
                        0 => (heap::with_policy(pol, || t.find(probe)), cx.model.get(&cx.rank(*id)).map(|x| x.0)),
                        1 => (heap::with_policy(pol, || t.next(probe)), cx.succ(*id).map(|x| x.0)),
                        2 => (heap::with_policy(pol, || t.prev(probe)), cx.pred(*id).map(|x| x.0)),
                        _ => {
                            if j % 2 == 0 {
                                (heap::with_policy(pol, || t.min()), cx.model.values().next().map(|x| x.0))
                            } else {
                                (heap::with_policy(pol, || t.max()), cx.model.values().next_back().map(|x| x.0))
                            }
                        }
                    };
                    if got.map(|k| k.id) != want {
                        return fail("wrong_neighbour", || format!("op #{} set read phase lookup {} kind {} (K{}): {:?} vs reference {:?}", opi, j, kind % 4, id, got.map(|k| k.id), want));
                    }
                    if let (Some(k), Some(w)) = (got, want) {
                        held.push((k, w));
                    }
                    for (hi, (k, id)) in held.iter().enumerate() {
                        if !k.sane() || k.id != *id {
                            let (kid, ks) = (k.id, k.sane());
                            return fail("held_reference_changed", || format!("op #{} set read phase: reference #{} handed out for K{} reads K{} magic_ok={} after lookup {}", opi, hi, id, kid, ks, j));
                        }
                    }
                    cx.held_max = cx.held_max.max(held.len() as u64);
                }
                if held.len() >= 2 {
                    cx.cnt("probe_read_phase_with_2plus_held_refs");
                }
            }
            Op::Migrate(n) => {
                let n = (*n as usize).min(ops.len() - i);
                let slice = &ops[i..i + n];
                if slice.iter().all(|o| !matches!(o, Op::Migrate(_))) {
                    let b = base + i;
                    let pass = Handoff((&mut *cx, &mut *t));
                    let r = std::thread::scope(|s| s.spawn(move || { let p = pass; let Handoff((cx2, t2)) = p; exec_set(cx2, t2, slice, b) }).join());
                    match r {
                        Ok(r) => r?,
                        Err(_) => return fail("panic", || format!("operations #{}.. panicked on the second thread", b)),
                    }
                    cx.cnt("fault_migrated_segments");
                    i += n;
                }
            }
            Op::Consume { pattern, take } => {
                let fresh: Set = SplaySet::new(make_cmp_from(cx));
                let old = std::mem::replace(t, fresh);
                let n = cx.model.len();
                let mut expect: std::collections::VecDeque<u32> = cx.model.values().map(|x| x.0).collect();
                let mut it = heap::with_policy(pol, || old.into_iter());
                let mut taken = 0;
                let mut dirs = 0u8;
                for step in 0..*take as usize {
                    let front = pattern.get(step % pattern.len().max(1)).cloned().unwrap_or(true);
                    dirs |= if front { 1 } else { 2 };
                    let hint = it.size_hint();
                    if hint != (n - taken, Some(n - taken)) {
                        return fail("size_hint", || format!("op #{} set consumption: after {} of {} items size_hint()={:?}", opi, taken, n, hint));
                    }
                    let got = heap::with_policy(pol, || if front { it.next() } else { it.next_back() });
                    let want = if front { expect.pop_front() } else { expect.pop_back() };
                    let g = got.as_ref().map(|k| k.id);
                    cx.log.add(g.map(|x| x as u64).unwrap_or(u64::MAX));
                    if g != want {
                        return fail("wrong_iteration", || format!("op #{} set consumption step {} ({}): yielded {:?}, reference {:?}", opi, step, if front { "front" } else { "back" }, g, want));
                    }
                    if got.is_none() {
                        break;
                    }
                    taken += 1;
                }
                if dirs == 3 {
                    cx.cnt("probe_mixed_direction_consumption");
                }
                if taken < n {
                    cx.cnt("fault_cancelled_consumption");
                }
                heap::with_policy(pol, || drop(it));
                cx.model.clear();
                cx.kser.clear();
            }
        }
        if t.len() != cx.model.len() || t.is_empty() != cx.model.is_empty() {
            return fail("len_mismatch", || format!("after op #{}: set len()={} but {} keys are stored", opi, t.len(), cx.model.len()));
        }
    }
    Ok(())
}

impl World for C17World {
    const PROP: &'static str = "C17";

    fn generate(seed: u64, _index: u64, tier: Tier) -> Self {
        let mut r = Rng::stream(seed, "workload");
        let set = r.chance(1, 3);
        let big = if tier == Tier::Thorough { 20000 } else { 3000 };
        let universe = match r.below(10) {
            0..=5 => 2 + r.below(7) as u32,
            6..=8 => 9 + r.below(56) as u32,
            _ => 65 + r.below(big) as u32,
        };
        let len = match r.below(10) {
            0..=3 => 1 + r.below(12),
            4..=7 => 13 + r.below(48),
            _ => 61 + r.below(340),
        } as usize;
        let mut rank: Vec<u32> = (0..universe).collect();
        match r.below(3) {
            0 => {}
            1 => rank.reverse(),
            _ => r.shuffle(&mut rank),
        }
        let mut ops = gen_ops(&mut r, universe, len, set);
        if r.chance(1, 2) {
            // start from a populated container: random subset, or a monotone run (chain-shaped tree)
            let n = 1 + r.below(universe.min(200) as u64) as u32;
            let mut ks: Vec<u32> = (0..universe).collect();
            r.shuffle(&mut ks);
            ks.truncate(n as usize);
            if r.chance(1, 3) {
                // repeated keys inside the first batch
                for _ in 0..1 + n / 3 {
                    let k = ks[r.below(ks.len() as u64) as usize];
                    ks.push(k);
                }
            }
            match r.below(3) {
                0 => ks.sort_by_key(|k| rank[*k as usize]),
                1 => ks.sort_by_key(|k| std::cmp::Reverse(rank[*k as usize])),
                _ => {}
            }
            ops.insert(0, Op::Extend(ks));
        }
        if universe <= 6 && r.chance(1, 2) {
            // shape census: render the tree after every operation
            let mut with = Vec::with_capacity(ops.len() * 2);
            for o in ops {
                with.push(o);
                with.push(Op::Debug);
            }
            ops = with;
        }
        let mut fr = Rng::stream(seed, "faults");
        let heap = if fr.chance(3, 10) {
            0
        } else {
            Policy { place: *fr.pick(&PLACES), fill: *fr.pick(&FILLS) }.code()
        };
        C17World { set, universe, rank, heap, heap_seed: Rng::stream(seed, "heap").next(), ops, end_clear: r.chance(1, 2) }
    }

    fn to_json(&self) -> Value {
        json!({"kind": if self.set { "SplaySet" } else { "SplayTree" }, "universe": self.universe, "rank": self.rank,
            "heap_policy": self.heap, "heap_policy_name": Policy::from_world(self.heap).name(), "heap_seed": self.heap_seed.to_string(),
            "end": if self.end_clear { "clear_then_drop" } else { "drop" },
            "ops": self.ops.iter().map(op_json).collect::<Vec<_>>()})
    }

    fn from_json(v: &Value) -> Result<Self, String> {
        let ops = v["ops"].as_array().ok_or("ops")?.iter().map(op_from).collect::<Result<Vec<_>, _>>()?;
        Ok(C17World {
            set: v["kind"] == "SplaySet",
            universe: v["universe"].as_u64().ok_or("universe")? as u32,
            rank: v["rank"].as_array().ok_or("rank")?.iter().map(|x| x.as_u64().unwrap_or(0) as u32).collect(),
            heap: v["heap_policy"].as_u64().unwrap_or(0) as u32,
            heap_seed: v["heap_seed"].as_str().and_then(|s| s.parse().ok()).unwrap_or(0),
            ops,
            end_clear: v["end"] == "clear_then_drop",
        })
    }

    fn run(&self, st: &mut Stats) -> Verdict {
        let pol = Policy::from_world(self.heap);
        let _ = heap::reset(self.heap_seed);
        ledger_reset();
        let cs = Arc::new(CmpState { rank: self.rank.clone(), calls: AtomicU64::new(0), garbage: AtomicU64::new(0) });
        *CURRENT_CMP.lock().unwrap_or_else(|e| e.into_inner()) = Some(cs.clone());
        let mut cx = Ctx { w: self, pol, model: Model::new(), kser: BTreeMap::new(), next_val: 0, log: LogHash::new(), c: BTreeMap::new(), shapes: vec![], held_max: 0 };
        let live0 = heap::live();
        let res: Result<Result<(), Fail>, String> = {
            let r = catch_unwind(AssertUnwindSafe(|| {
                if self.set {
                    let mut t: Set = SplaySet::new(make_cmp(&cs));
                    let r = exec_set(&mut cx, &mut t, &self.ops, 0);
                    heap::with_policy(pol, || {
                        if self.end_clear {
                            t.clear();
                        }
                        drop(t)
                    });
                    r
                } else {
                    let mut t: Map = SplayTree::new(make_cmp(&cs));
                    let r = exec_map(&mut cx, &mut t, &self.ops, 0);
                    heap::with_policy(pol, || {
                        if self.end_clear {
                            t.clear();
                        }
                        drop(t)
                    });
                    r
                }
            }));
            match r {
                Ok(x) => Ok(x),
                Err(p) => Err(p.downcast_ref::<String>().cloned().or_else(|| p.downcast_ref::<&str>().map(|s| s.to_string())).unwrap_or_else(|| "panic".into())),
            }
        };
        let mut violation = match res {
            Ok(Ok(())) => None,
            Ok(Err(Fail(class, detail))) => Some(Violation { class: class.into(), detail }),
            Err(msg) => Some(Violation { class: "panic".into(), detail: format!("the container panicked: {}", msg) }),
        };
        let (dd, gd) = {
            let l = LEDGER.lock().unwrap_or_else(|e| e.into_inner());
            (l.double_drops, l.garbage_drops)
        };
        if violation.is_none() && (dd > 0 || gd > 0) {
            violation = Some(Violation { class: "double_drop".into(), detail: format!("{} elements dropped twice, {} drops of garbage elements", dd, gd) });
        }
        let garbage = cs.garbage.load(Relaxed);
        if violation.is_none() && garbage > 0 {
            violation = Some(Violation { class: "comparator_saw_garbage".into(), detail: format!("the comparator was called {} times with an element that is not a live key", garbage) });
        }
        let leaked_nodes = heap::live().saturating_sub(live0);
        let leaked_items = ledger_alive();
        // flush counters
        st.inc("histories");
        st.add("operations", self.ops.len() as u64);
        st.add("comparator_calls", cs.calls.load(Relaxed));
        st.max("max_held_references", cx.held_max);
        st.add("observed_leaked_nodes_in_arena", leaked_nodes as u64);
        st.add("observed_leaked_items", leaked_items);
        if pol != Policy::CANON {
            st.inc("fault_heap_policy_histories");
        } else {
            st.inc("fault_free_heap_histories");
        }
        for k in ["probe_insert_replace", "probe_remove_with_both_neighbours", "probe_remove_absent", "probe_lookup_absent",
            "probe_neighbour_of_absent_key", "probe_index_absent_panics", "probe_mixed_direction_consumption",
            "probe_read_phase_with_2plus_held_refs", "fault_cancelled_consumption", "fault_migrated_segments", "fault_bulk_operation_cancelled_by_panicking_iterator"] {
            st.add(k, cx.c.get(k).cloned().unwrap_or(0));
        }
        st.add("observed_items_not_released_after_consumption", cx.c.get("observed_items_not_released_after_consumption").cloned().unwrap_or(0));
        for s in &cx.shapes {
            st.distinct2.insert(*s);
        }
        if self.ops.len() >= 4 {
            st.distinct.insert(self.ops_hash());
        }
        let me = self;
        st.sample(2, || me.to_json());
        if leaked_nodes > 0 {
            // arena cannot be reset with blocks alive; make it a note (not a violation: reclamation is not promised)
            st.notes.insert("a history ended with nodes still allocated (leak observed, not a C17 violation)".into());
        }
        let mut h = cx.log;
        h.add(cx.model.len() as u64);
        h.add(violation.as_ref().map(|v| v.class.len() as u64).unwrap_or(0));
        Verdict { violation, log_hash: h.0 }
    }

    fn shrink(&self) -> Vec<Self> {
        let mut out = Vec::new();
        let n = self.ops.len();
        // drop chunks of operations
        let mut chunk = n / 2;
        while chunk >= 1 {
            let mut s = 0;
            while s < n {
                let mut w = self.clone();
                w.ops.drain(s..(s + chunk).min(n));
                out.push(w);
                s += chunk;
            }
            chunk /= 2;
        }
        // renumber: keep only the keys that occur, name them by rank
        {
            let mut used: Vec<u32> = Vec::new();
            let mut see = |k: u32| if !used.contains(&k) { used.push(k) };
            for o in &self.ops {
                match o {
                    Op::Insert(k) | Op::Remove(k) | Op::Get(k) | Op::GetMutWrite(k) | Op::Contains(k) | Op::FindKey(k)
                    | Op::Next(k) | Op::Prev(k) | Op::Index(k) | Op::IndexMutWrite(k) => see(*k),
                    Op::Extend(ks) | Op::ExtendFaulty(ks, _) => ks.iter().for_each(|k| see(*k)),
                    Op::ReadPhase(ls) => ls.iter().for_each(|(_, k)| see(*k)),
                    _ => {}
                }
            }
            used.sort_by_key(|k| self.rank[*k as usize]);
            let identity = self.rank.iter().enumerate().all(|(i, r)| i as u32 == *r);
            if !used.is_empty() && ((used.len() as u32) < self.universe || !identity) {
                let map = |k: u32| used.iter().position(|u| *u == k).unwrap() as u32;
                let mut w = self.clone();
                w.universe = used.len() as u32;
                w.rank = (0..w.universe).collect();
                for o in w.ops.iter_mut() {
                    match o {
                        Op::Insert(k) | Op::Remove(k) | Op::Get(k) | Op::GetMutWrite(k) | Op::Contains(k) | Op::FindKey(k)
                        | Op::Next(k) | Op::Prev(k) | Op::Index(k) | Op::IndexMutWrite(k) => *k = map(*k),
                        Op::Extend(ks) | Op::ExtendFaulty(ks, _) => ks.iter_mut().for_each(|k| *k = map(*k)),
                        Op::ReadPhase(ls) => ls.iter_mut().for_each(|(_, k)| *k = map(*k)),
                        _ => {}
                    }
                }
                out.push(w);
            }
        }
        // simplify environment
        if self.heap != 0 {
            let mut w = self.clone();
            w.heap = 0;
            out.push(w);
        }
        if self.end_clear {
            let mut w = self.clone();
            w.end_clear = false;
            out.push(w);
        }
        // simplify single operations
        for (i, op) in self.ops.iter().enumerate() {
            if let Op::Migrate(_) = op {
                let mut w = self.clone();
                w.ops.remove(i);
                out.push(w);
                continue;
            }
            let simpler: Vec<Op> = match op {
                Op::ReadPhase(ls) if ls.len() > 1 => (0..ls.len()).map(|j| {
                    let mut l = ls.clone();
                    l.remove(j);
                    Op::ReadPhase(l)
                }).collect(),
                Op::Extend(ks) if ks.len() > 1 => (0..ks.len()).map(|j| {
                    let mut l = ks.clone();
                    l.remove(j);
                    Op::Extend(l)
                }).collect(),
                Op::Extend(ks) if ks.len() == 1 => vec![Op::Insert(ks[0])],
                Op::ExtendFaulty(ks, j) => {
                    let mut v = vec![Op::Extend(ks[..(*j as usize).min(ks.len())].to_vec())];
                    if ks.len() > 1 {
                        let mut l = ks.clone();
                        l.pop();
                        v.push(Op::ExtendFaulty(l, (*j).min(ks.len() as u32 - 1)));
                    }
                    v
                }
                Op::Consume { pattern, take } if *take > 0 => vec![Op::Consume { pattern: pattern.clone(), take: take - 1 }],
                _ => vec![],
            };
            for s in simpler {
                let mut w = self.clone();
                w.ops[i] = s;
                out.push(w);
            }
        }
        out
    }

    fn signature(&self) -> String {
        format!("c17:{:016x}", self.ops_hash())
    }
}
