//! Batch driver shared by all worlds: worker processes, seeded run indices, determinism
//! self-test, minimisation, replay files, known findings, evidence.

use crate::rng::mix;
use serde_json::{json, Map, Value};
use std::collections::{BTreeMap, BTreeSet};
use std::io::Write;
use std::process::{Command, Stdio};
use std::time::Instant;

pub const DEFAULT_SEED: u64 = 20260926;
/// the directory the check was started in (the `check` script changes into its own directory first)
pub fn verif_dir() -> String {
    std::env::var("VERIF_DIR").ok().unwrap_or_else(|| std::env::current_dir().map(|p| p.to_string_lossy().to_string()).unwrap_or_else(|_| "/verif".into()))
}

#[derive(Clone, Copy, PartialEq, Eq, Debug)]
pub enum Tier {
    Quick,
    Thorough,
}
impl Tier {
    pub fn name(self) -> &'static str {
        match self {
            Tier::Quick => "quick",
            Tier::Thorough => "thorough",
        }
    }
}

#[derive(Clone, Debug)]
pub struct Violation {
    /// stable class name; minimisation keeps the class
    pub class: String,
    pub detail: String,
}

pub struct Verdict {
    pub violation: Option<Violation>,
    /// hash of everything the simulator decided and observed in this run
    pub log_hash: u64,
}

#[derive(Default)]
pub struct Stats {
    pub counters: BTreeMap<String, u64>,
    pub distinct: BTreeSet<u64>,
    pub distinct2: BTreeSet<u64>,
    pub samples: Vec<Value>,
    pub notes: BTreeSet<String>,
}
impl Stats {
    pub fn add(&mut self, k: &str, n: u64) {
        if let Some(c) = self.counters.get_mut(k) {
            *c += n;
        } else {
            self.counters.insert(k.to_string(), n);
        }
    }
    pub fn inc(&mut self, k: &str) {
        self.add(k, 1)
    }
    pub fn max(&mut self, k: &str, n: u64) {
        let e = self.counters.entry(k.to_string()).or_insert(0);
        if n > *e {
            *e = n
        }
    }
    pub fn sample(&mut self, cap: usize, f: impl FnOnce() -> Value) {
        if self.samples.len() < cap {
            self.samples.push(f())
        }
    }
}

/// Every execution of a world happens on a fresh OS thread: fresh thread-locals and — because the
/// simulator answers `getrandom` — std hash keys that are a function of the world, not of whatever
/// the worker process did before.
pub fn run_isolated<W: World>(w: &W, st: &mut Stats) -> Verdict {
    let r = std::thread::scope(|s| {
        std::thread::Builder::new().stack_size(16 << 20).spawn_scoped(s, || w.run(st)).expect("spawn world thread").join()
    });
    match r {
        Ok(v) => v,
        Err(_) => {
            st.inc("harness_world_thread_panicked");
            Verdict { violation: None, log_hash: 0 }
        }
    }
}

pub trait World: Sized + Sync {
    /// property id, e.g. "C17"
    const PROP: &'static str;
    /// wall-clock cap for minimising one violation, and violations after which a worker stops
    /// C12 only: a world whose outcome differs between identical executions in fresh processes violates the property
    /// itself (for the other properties such a world is harness trouble)
    const NONDETERMINISM_IS_VIOLATION: bool = false;
    const MINIMISE_SECS: f64 = 120.0;
    const MAX_VIOLATIONS_PER_WORKER: usize = 3;
    fn generate(seed: u64, index: u64, tier: Tier) -> Self;
    fn to_json(&self) -> Value;
    fn from_json(v: &Value) -> Result<Self, String>;
    fn run(&self, st: &mut Stats) -> Verdict;
    /// simpler worlds to try, most aggressive first
    fn shrink(&self) -> Vec<Self>;
    /// signature that identifies "the same failing input" for the known-findings file
    fn signature(&self) -> String;
}

pub struct Plan {
    pub runs: u64,
    pub budget_s: f64,
    pub selftest_runs: u64,
    pub workers: usize,
}

pub fn env_seed() -> u64 {
    std::env::var("VERIF_SEED").ok().and_then(|s| s.trim().parse::<u64>().ok()).unwrap_or(DEFAULT_SEED)
}

pub fn workers_default() -> usize {
    std::env::var("VERIF_WORKERS").ok().and_then(|s| s.parse().ok()).unwrap_or_else(|| {
        std::thread::available_parallelism().map(|n| n.get()).unwrap_or(4).min(16)
    })
}

fn minimise<W: World>(w: W, class: &str, st: &mut Stats) -> (W, u64) {
    let mut cur = w;
    let mut tries = 0u64;
    let t0 = Instant::now();
    'outer: loop {
        if tries > 4000 || t0.elapsed().as_secs_f64() > W::MINIMISE_SECS {
            break;
        }
        for cand in cur.shrink() {
            tries += 1;
            let mut scratch = Stats::default();
            let a = run_isolated(&cand, &mut scratch);
            if a.violation.as_ref().map(|v| v.class == class).unwrap_or(false) {
                // accept only if it reproduces twice
                let b = run_isolated(&cand, &mut scratch);
                if b.violation.as_ref().map(|v| v.class == class).unwrap_or(false) && a.log_hash == b.log_hash {
                    if std::env::var("SIM_MIN_TRACE").is_ok() {
                        eprintln!("minimise: accepted candidate after {} tries, {:.1}s", tries, t0.elapsed().as_secs_f64());
                    }
                    cur = cand;
                    continue 'outer;
                }
            }
            if tries > 4000 || t0.elapsed().as_secs_f64() > W::MINIMISE_SECS {
                break 'outer;
            }
        }
        break;
    }
    st.add("minimisation_candidate_runs", tries);
    (cur, tries)
}

/// Worker: executes run indices start, start+stride, ... (count of them, or until budget).
pub fn worker_main<W: World>(args: &[String]) -> i32 {
    let get = |k: &str| -> Option<String> {
        args.iter().position(|a| a == k).and_then(|i| args.get(i + 1).cloned())
    };
    let seed: u64 = get("--seed").unwrap().parse().unwrap();
    let start: u64 = get("--start").unwrap().parse().unwrap();
    let stride: u64 = get("--stride").unwrap().parse().unwrap();
    let count: u64 = get("--count").unwrap().parse().unwrap();
    let budget: f64 = get("--budget-s").unwrap().parse().unwrap();
    let tier = if get("--tier").as_deref() == Some("thorough") { Tier::Thorough } else { Tier::Quick };
    let want_hashes = args.iter().any(|a| a == "--hashes");
    let t0 = Instant::now();
    let mut st = Stats::default();
    let mut hashes: Vec<(u64, u64)> = Vec::new();
    let mut violations: Vec<Value> = Vec::new();
    let mut done = 0u64;
    let mut combined = 0u64;
    let mut resume_at: Option<u64> = None;
    let _ = std::fs::create_dir_all(format!("{}/replays", verif_dir()));
    let progress = format!("{}/replays/.progress-{}", verif_dir(), std::process::id());
    for k in 0..count {
        if t0.elapsed().as_secs_f64() > budget {
            break;
        }
        if k > 0 && crate::heap::live() != 0 {
            // a previous world left blocks in the simulated heap (a leak in the code under test): the arena
            // cannot be reset, so the rest of this worker's indices continue in a fresh process
            st.inc("observed_worker_restarts_after_leaked_arena_blocks");
            resume_at = Some(k);
            break;
        }
        let i = start + k * stride;
        let s = mix(seed, i);
        // progress marker: if this process dies inside the code under test, the parent knows which run it was
        let _ = std::fs::write(&progress, i.to_string());
        if std::env::var("SIM_FAKE_CRASH_AT").ok().and_then(|v| v.parse::<u64>().ok()) == Some(i) {
            unsafe { std::ptr::null_mut::<u8>().write_volatile(1) }; // self-test of the crash path
        }
        let w = W::generate(s, i, tier);
        let v = run_isolated(&w, &mut st);
        done += 1;
        combined = mix(combined, v.log_hash);
        if want_hashes {
            hashes.push((i, v.log_hash));
        }
        if let Some(viol) = v.violation {
            // reproduce once more before believing it
            let mut scratch = Stats::default();
            let again = run_isolated(&w, &mut scratch);
            let reproduced = again.violation.as_ref().map(|x| x.class == viol.class).unwrap_or(false)
                && again.log_hash == v.log_hash;
            if !reproduced {
                // The same world behaves differently the second time in this process: its behaviour depends on state
                // that outlives a world (process-wide statics in the code under test). Exact replay then needs the
                // whole history of this process: the parent confirms by re-running this worker's prefix.
                violations.push(json!({"needs_history": true, "prefix": {"start": start, "stride": stride, "index": i},
                    "run_index": i, "run_seed": s, "class": viol.class, "detail": viol.detail, "log_hash": format!("{:016x}", v.log_hash),
                    "signature": w.signature(), "world": w.to_json()}));
                resume_at = Some(k + 1);
                break;
            }
            let (m, tries) = minimise(w, &viol.class, &mut st);
            let mut scratch = Stats::default();
            let fin = run_isolated(&m, &mut scratch);
            let detail = fin.violation.as_ref().map(|x| x.detail.clone()).unwrap_or_default();
            violations.push(json!({"run_index": i, "run_seed": s, "class": viol.class, "detail": detail,
                "original_detail": viol.detail, "log_hash": format!("{:016x}", fin.log_hash),
                "minimisation_runs": tries, "signature": m.signature(), "world": m.to_json()}));
            // one violation per worker process (so that a worker's history up to a violation never contains
            // minimisation runs); the parent does not respawn behind a violation
            break;
        }
    }
    let out = json!({
        "done": done, "combined": format!("{:016x}", combined), "counters": st.counters,
        "distinct": st.distinct.iter().collect::<Vec<_>>(), "distinct2": st.distinct2.iter().collect::<Vec<_>>(),
        "samples": st.samples, "notes": st.notes.iter().collect::<Vec<_>>(),
        "hashes": hashes, "violations": violations, "wall_s": t0.elapsed().as_secs_f64(),
        "heap": crate::heap::stats_json(), "resume_at": resume_at,
    });
    let _ = std::fs::remove_file(&progress);
    let so = std::io::stdout();
    let mut so = so.lock();
    let _ = writeln!(so, "{}", out);
    0
}

/// `sim prefix <prop> --seed S --start a --stride k --index i --tier t`: re-run a worker's history from its process
/// start up to run i and report run i (exit 1 + class/detail if it violates, 0 otherwise).
pub fn prefix_main<W: World>(args: &[String]) -> i32 {
    let get = |k: &str| -> Option<String> { args.iter().position(|a| a == k).and_then(|i| args.get(i + 1).cloned()) };
    let seed: u64 = get("--seed").and_then(|s| s.parse().ok()).unwrap_or(DEFAULT_SEED);
    let start: u64 = get("--start").and_then(|s| s.parse().ok()).unwrap_or(0);
    let stride: u64 = get("--stride").and_then(|s| s.parse().ok()).unwrap_or(1).max(1);
    let index: u64 = get("--index").and_then(|s| s.parse().ok()).unwrap_or(0);
    let tier = if get("--tier").as_deref() == Some("thorough") { Tier::Thorough } else { Tier::Quick };
    let mut st = Stats::default();
    let mut i = start;
    while i <= index {
        let w = W::generate(mix(seed, i), i, tier);
        let v = run_isolated(&w, &mut st);
        if i == index {
            return match v.violation {
                Some(x) => {
                    println!("PREFIX-VIOLATION class={} log_hash={:016x} detail={}", x.class, v.log_hash, x.detail);
                    1
                }
                None => {
                    println!("PREFIX-CLEAN log_hash={:016x}", v.log_hash);
                    0
                }
            };
        }
        i += stride;
    }
    0
}

/// `sim one <prop> --seed S --index i --tier t`: print the world, then run it (used to confirm a crash).
pub fn one_main<W: World>(args: &[String]) -> i32 {
    let get = |k: &str| -> Option<String> { args.iter().position(|a| a == k).and_then(|i| args.get(i + 1).cloned()) };
    let seed: u64 = get("--seed").and_then(|s| s.parse().ok()).unwrap_or(DEFAULT_SEED);
    let i: u64 = get("--index").and_then(|s| s.parse().ok()).unwrap_or(0);
    let tier = if get("--tier").as_deref() == Some("thorough") { Tier::Thorough } else { Tier::Quick };
    let w = W::generate(mix(seed, i), i, tier);
    println!("WORLD {}", w.to_json());
    let _ = std::io::stdout().flush();
    if std::env::var("SIM_FAKE_CRASH_AT").ok().and_then(|v| v.parse::<u64>().ok()) == Some(i) {
        unsafe { std::ptr::null_mut::<u8>().write_volatile(1) }; // self-test of the crash path
    }
    let mut st = Stats::default();
    let v = run_isolated(&w, &mut st);
    println!("DONE hash={:016x} violation={}", v.log_hash, v.violation.map(|x| x.class).unwrap_or_default());
    0
}

/// `sim oneworld <file>`: run the world of a replay file once in this (fresh) process and print its event-log hash.
pub fn oneworld_main<W: World>(v: &Value) -> i32 {
    match W::from_json(&v["world"]) {
        Ok(w) => {
            let mut st = Stats::default();
            let r = run_isolated(&w, &mut st);
            println!("DONE hash={:016x} violation={}", r.log_hash, r.violation.map(|x| x.class).unwrap_or_default());
            0
        }
        Err(_) => 2,
    }
}

/// hashes and violation classes of `n` executions of run `index`, each in a fresh process
fn fresh_runs(prop: &str, seed: u64, index: u64, tier: Tier, n: usize) -> Vec<String> {
    let exe = std::env::current_exe().expect("current_exe");
    (0..n).filter_map(|_| {
        Command::new(&exe).arg("one").arg(prop).arg("--seed").arg(seed.to_string()).arg("--index").arg(index.to_string()).arg("--tier").arg(tier.name())
            .stdin(Stdio::null()).stderr(Stdio::null()).output().ok()
            .and_then(|o| String::from_utf8_lossy(&o.stdout).lines().find(|l| l.starts_with("DONE ")).map(|l| l.to_string()))
    }).collect()
}

struct Merged {
    /// (run index, signal) of workers that died inside a run
    crashes: Vec<(u64, i32)>,
    stalled: bool,
    done: u64,
    counters: BTreeMap<String, u64>,
    distinct: BTreeSet<u64>,
    distinct2: BTreeSet<u64>,
    samples: Vec<Value>,
    notes: BTreeSet<String>,
    hashes: BTreeMap<u64, u64>,
    violations: Vec<Value>,
    heap: BTreeMap<String, u64>,
    worker_failures: Vec<String>,
}

fn spawn_workers(prop: &str, tier: Tier, seed: u64, runs: u64, budget_s: f64, workers: usize, hashes: bool) -> Merged {
    let exe = std::env::current_exe().expect("current_exe");
    let workers = workers.max(1).min(runs.max(1) as usize);
    let t_start = Instant::now();
    let spawn = |start: u64, count: u64| {
        let left = (budget_s - t_start.elapsed().as_secs_f64()).max(0.0);
        let mut c = Command::new(&exe);
        c.arg("worker").arg(prop)
            .arg("--seed").arg(seed.to_string())
            .arg("--start").arg(start.to_string())
            .arg("--stride").arg(workers.to_string())
            .arg("--count").arg(count.to_string())
            .arg("--budget-s").arg(left.to_string())
            .arg("--tier").arg(tier.name());
        if hashes {
            c.arg("--hashes");
        }
        c.stdout(Stdio::piped()).stderr(Stdio::inherit()).stdin(Stdio::null());
        c.spawn().expect("spawn worker")
    };
    let mut children = Vec::new();
    for wi in 0..workers {
        let count = (runs + workers as u64 - 1 - wi as u64) / workers as u64;
        children.push((wi, wi as u64, count, spawn(wi as u64, count)));
    }
    let mut m = Merged {
        crashes: vec![],
        stalled: false,
        done: 0, counters: BTreeMap::new(), distinct: BTreeSet::new(), distinct2: BTreeSet::new(),
        samples: vec![], notes: BTreeSet::new(), hashes: BTreeMap::new(), violations: vec![],
        heap: BTreeMap::new(), worker_failures: vec![],
    };
    let mut queue: std::collections::VecDeque<_> = children.into_iter().collect();
    while let Some((wi, start, count, ch)) = queue.pop_front() {
        let pid = ch.id();
        let out = ch.wait_with_output().expect("wait worker");
        {
            use std::os::unix::process::ExitStatusExt;
            if let Some(sig) = out.status.signal() {
                // the worker died inside a run: remember which one, continue behind it in a fresh process
                let pf = format!("{}/replays/.progress-{}", verif_dir(), pid);
                if let Some(idx) = std::fs::read_to_string(&pf).ok().and_then(|t| t.trim().parse::<u64>().ok()) {
                    let _ = std::fs::remove_file(&pf);
                    m.crashes.push((idx, sig));
                    let k = (idx - start) / workers as u64 + 1;
                    if k < count && m.crashes.len() < 8 {
                        let ns = start + k * workers as u64;
                        queue.push_back((wi, ns, count - k, spawn(ns, count - k)));
                    }
                    continue;
                }
            }
        }
        let text = String::from_utf8_lossy(&out.stdout);
        let last = text.lines().rev().find(|l| l.starts_with('{'));
        let v: Value = match last.and_then(|l| serde_json::from_str(l).ok()) {
            Some(v) if out.status.success() => v,
            _ if out.status.code() == Some(4) => {
                m.stalled = true;
                continue;
            }
            _ if out.status.code() == Some(5) => {
                // a call of the world below never came back in its interleaving (the worker had to give up its process)
                if let Some(l) = text.lines().rev().find(|l| l.starts_with("NEVER-RETURNS ")) {
                    if let Ok(w) = serde_json::from_str::<Value>(&l[14..]) {
                        m.violations.push(json!({"run_index": -1, "run_seed": 0, "class": "call_never_returns",
                            "detail": "a simulated client kept computing for 15 s without reaching any scheduling point, although every call of this world returned in isolation: whether the call returns depends on the interleaving",
                            "log_hash": "", "signature": "never-returns", "world": w}));
                    }
                }
                continue;
            }
            _ => {
                m.worker_failures.push(format!("worker {} status {:?}", wi, out.status));
                continue;
            }
        };
        m.done += v["done"].as_u64().unwrap_or(0);
        if let Some(k) = v["resume_at"].as_u64() {
            if k < count && v["violations"].as_array().map(|a| a.is_empty()).unwrap_or(true) {
                let ns = start + k * workers as u64;
                queue.push_back((wi, ns, count - k, spawn(ns, count - k)));
            }
        }
        if let Some(o) = v["counters"].as_object() {
            for (k, n) in o {
                let n = n.as_u64().unwrap_or(0);
                if k.starts_with("max_") {
                    let e = m.counters.entry(k.clone()).or_insert(0);
                    *e = (*e).max(n);
                } else {
                    *m.counters.entry(k.clone()).or_insert(0) += n;
                }
            }
        }
        if let Some(o) = v["heap"].as_object() {
            for (k, n) in o {
                if let Some(n) = n.as_u64() {
                    *m.heap.entry(k.clone()).or_insert(0) += n;
                } else if let Some(o2) = n.as_object() {
                    for (k2, n2) in o2 {
                        *m.heap.entry(format!("{}.{}", k, k2)).or_insert(0) += n2.as_u64().unwrap_or(0);
                    }
                }
            }
        }
        for x in v["distinct"].as_array().into_iter().flatten() {
            m.distinct.insert(x.as_u64().unwrap_or(0));
        }
        for x in v["distinct2"].as_array().into_iter().flatten() {
            m.distinct2.insert(x.as_u64().unwrap_or(0));
        }
        for x in v["samples"].as_array().into_iter().flatten() {
            if m.samples.len() < 6 {
                m.samples.push(x.clone());
            }
        }
        for x in v["notes"].as_array().into_iter().flatten() {
            m.notes.insert(x.as_str().unwrap_or("").to_string());
        }
        for x in v["hashes"].as_array().into_iter().flatten() {
            m.hashes.insert(x[0].as_u64().unwrap(), x[1].as_u64().unwrap());
        }
        for x in v["violations"].as_array().into_iter().flatten() {
            m.violations.push(x.clone());
        }
    }
    m
}

pub struct KnownFindings {
    pub entries: Vec<Value>,
}
impl KnownFindings {
    pub fn load() -> KnownFindings {
        let p = format!("{}/known_findings.json", verif_dir());
        let entries = std::fs::read_to_string(&p)
            .ok()
            .and_then(|s| serde_json::from_str::<Value>(&s).ok())
            .and_then(|v| v["findings"].as_array().cloned())
            .unwrap_or_default();
        KnownFindings { entries }
    }
    /// entries with status "known" for this property
    pub fn known(&self, prop: &str) -> Vec<&Value> {
        self.entries.iter().filter(|e| e["property"] == prop && e["status"] == "known").collect()
    }
}

pub struct Extra {
    /// additional sections merged into coverage
    pub coverage: Map<String, Value>,
    pub assumptions: Vec<String>,
    pub rule: String,
    pub level: &'static str,
    /// extra violations found by property-specific engines (already printed)
    pub extra_violations: u64,
    pub extra_evaluations: u64,
}

/// Parent: self-test determinism, run the batch, replay known findings, write evidence.
/// Returns the process exit code.
pub fn parent_main<W: World>(tier: Tier, plan: Plan, extra: Extra) -> i32 {
    match parent_once::<W>(tier, &plan, &extra) {
        Some(code) => code,
        None => {
            // a worker stalled: once more, with scheduling points at call boundaries only
            println!("note: a simulated client blocked on a primitive the simulator does not own while another client was parked inside a call; repeating the whole batch at call granularity (no scheduling points inside a call)");
            std::env::set_var("SIM_CALL_GRANULARITY", "1");
            match parent_once::<W>(tier, &plan, &extra) {
                Some(code) => code,
                None => {
                    println!("HARNESS-ERROR stalled even at call granularity");
                    2
                }
            }
        }
    }
}

/// Direct probe of the getrandom seam: a fresh thread's first `RandomState` must be answered by the simulator.
fn hash_keys_owned() -> bool {
    crate::heap::set_hash_seed(0x5EED);
    let before = crate::heap::GETRANDOM_CALLS.load(std::sync::atomic::Ordering::SeqCst);
    let _ = std::thread::spawn(|| std::hint::black_box(std::collections::hash_map::RandomState::new())).join();
    crate::heap::GETRANDOM_CALLS.load(std::sync::atomic::Ordering::SeqCst) > before
}

fn parent_once<W: World>(tier: Tier, plan: &Plan, extra: &Extra) -> Option<i32> {
    if !hash_keys_owned() {
        println!("HARNESS-ERROR std hash keys are not owned by the simulator (std no longer asks through the getrandom symbol the simulator defines)");
        return Some(2);
    }
    // development knob (never set by a registered check): explore more or fewer runs than the tier's plan
    let plan = &Plan {
        runs: std::env::var("VERIF_RUNS").ok().and_then(|s| s.parse().ok()).unwrap_or(plan.runs),
        budget_s: plan.budget_s, selftest_runs: plan.selftest_runs, workers: plan.workers,
    };
    let t0 = Instant::now();
    let seed = env_seed();
    let prop = W::PROP;
    println!("VERIF_SEED={} property={} tier={} runs={} workers={}", seed, prop, tier.name(), plan.runs, plan.workers);

    // 1. determinism self-test: the same run indices in different processes and worker counts
    let mut divergent = 0u64;
    let mut selftested = 0u64;
    if plan.selftest_runs > 0 {
        let a = spawn_workers(prop, tier, seed, plan.selftest_runs, plan.budget_s, 1, true);
        let b = spawn_workers(prop, tier, seed, plan.selftest_runs, plan.budget_s, plan.workers.max(2), true);
        if a.stalled || b.stalled {
            return None;
        }
        if !a.worker_failures.is_empty() || !b.worker_failures.is_empty() {
            println!("HARNESS-ERROR worker failed during self-test: {:?} {:?}", a.worker_failures, b.worker_failures);
            return Some(2);
        }
        for (i, h) in &a.hashes {
            if let Some(h2) = b.hashes.get(i) {
                selftested += 1;
                if h != h2 {
                    divergent += 1;
                    println!("HARNESS-ERROR nondeterminism: run index {} hash {:016x} vs {:016x}", i, h, h2);
                }
            }
        }
        if divergent > 0 {
            if !W::NONDETERMINISM_IS_VIOLATION {
                return Some(2);
            }
            // For C12 a divergence between two executions of the same run IS the subject matter. Find out what it
            // depends on: execute the first divergent run several times in fresh processes.
            let idx = a.hashes.iter().find(|(i, h)| b.hashes.get(i).map(|h2| h2 != *h).unwrap_or(false)).map(|(i, _)| *i).unwrap_or(0);
            let outs = fresh_runs(prop, seed, idx, tier, 5);
            let distinct: BTreeSet<&String> = outs.iter().collect();
            let exe = std::env::current_exe().expect("current_exe");
            let world: Value = Command::new(&exe).arg("one").arg(prop).arg("--seed").arg(seed.to_string()).arg("--index").arg(idx.to_string()).arg("--tier").arg(tier.name())
                .stdin(Stdio::null()).stderr(Stdio::null()).output().ok()
                .and_then(|o| String::from_utf8_lossy(&o.stdout).lines().find(|l| l.starts_with("WORLD ")).and_then(|l| serde_json::from_str(&l[6..]).ok()))
                .unwrap_or(Value::Null);
            let _ = std::fs::create_dir_all(format!("{}/replays", verif_dir()));
            let path = format!("{}/replays/{}-{}-selftest.json", verif_dir(), prop, mix(seed, idx));
            let (class, kind, detail) = if distinct.len() > 1 {
                ("nondeterministic_between_identical_executions", "fresh_process_repeat",
                 format!("run index {}: the same world, executed {} times in fresh processes with schedule, heap, hash keys and faults fixed by the world, ended in {} different ways", idx, outs.len(), distinct.len()))
            } else {
                ("result_depends_on_process_history", "prefix_pair",
                 format!("run index {}: executed as run number {} of one process and as run number {} of another (same seed, same world) it ends differently, although alone in a fresh process it is repeatable: state outlives a call and a thread", idx, idx + 1, idx / plan.workers.max(2) as u64 + 1))
            };
            let file = json!({"property": prop, "verif_seed": seed, "run_index": idx, "run_seed": mix(seed, idx), "class": class, "detail": detail,
                "world": world, "replay_kind": kind, "tier": tier.name(),
                "prefixes": [{"start": 0, "stride": 1, "index": idx}, {"start": idx % plan.workers.max(2) as u64, "stride": plan.workers.max(2), "index": idx}]});
            let _ = std::fs::write(&path, serde_json::to_string_pretty(&file).unwrap());
            println!("violation class={} detail={}", class, detail);
            println!("VIOLATION property={} replay={}", prop, path);
            let ev = json!({"property_id": prop, "tier": tier.name(), "seed": seed, "level": extra.level,
                "coverage": {"evaluations": selftested, "distinct_nontrivial": 2, "rule": extra.rule, "samples": [world],
                    "note": "the determinism self-test itself found the violation; the batch was not run"},
                "assumptions": extra.assumptions, "wall_s": t0.elapsed().as_secs_f64(), "violations": 1});
            let _ = std::fs::create_dir_all(format!("{}/evidence", verif_dir()));
            let _ = std::fs::write(format!("{}/evidence/{}.json", verif_dir(), prop), serde_json::to_string_pretty(&ev).unwrap());
            return Some(1);
        }
        println!("self-test: {} runs repeated in separate processes (1 and {} workers): identical event-log hashes", selftested, plan.workers.max(2));
    }

    // 2. the batch
    let m = spawn_workers(prop, tier, seed, plan.runs, plan.budget_s, plan.workers, false);
    if m.stalled {
        return None;
    }
    if !m.worker_failures.is_empty() {
        println!("HARNESS-ERROR worker failed: {:?}", m.worker_failures);
        return Some(2);
    }

    // 2b. workers that died inside a run: confirm in a fresh process, twice; a reproducible crash of the code
    //     under test (abort, SIGSEGV after reading poisoned memory, ...) is a violation, anything else harness trouble
    let mut crash_violations: Vec<Value> = Vec::new();
    for (idx, sig) in m.crashes.iter().take(3) {
        let exe = std::env::current_exe().expect("current_exe");
        let mut world: Option<Value> = None;
        let mut died = 0;
        for _ in 0..2 {
            if let Ok(out) = Command::new(&exe).arg("one").arg(prop).arg("--seed").arg(seed.to_string()).arg("--index").arg(idx.to_string())
                .arg("--tier").arg(tier.name()).stdin(Stdio::null()).stderr(Stdio::null()).output() {
                use std::os::unix::process::ExitStatusExt;
                let text = String::from_utf8_lossy(&out.stdout).to_string();
                if let Some(l) = text.lines().find(|l| l.starts_with("WORLD ")) {
                    world = serde_json::from_str(&l[6..]).ok();
                }
                if out.status.signal().is_some() {
                    died += 1;
                }
            }
        }
        if died == 2 {
            crash_violations.push(json!({"run_index": idx, "run_seed": mix(seed, *idx), "class": "crash_in_code_under_test",
                "detail": format!("the process running this world is killed by signal {} (reproduced twice in fresh processes)", sig),
                "log_hash": "", "signature": format!("crash:{}:{}", prop, idx), "world": world.unwrap_or(Value::Null)}));
        } else {
            println!("HARNESS-ERROR a worker died with signal {} at run index {} but the run does not crash on its own ({} of 2)", sig, idx, died);
            return Some(2);
        }
    }

    // 3. known findings: replay each listed world
    let kf = KnownFindings::load();
    let mut known_lines = 0u64;
    for e in kf.known(prop) {
        let path = format!("{}/{}", verif_dir(), e["replay"].as_str().unwrap_or(""));
        let still = std::fs::read_to_string(&path)
            .ok()
            .and_then(|s| serde_json::from_str::<Value>(&s).ok())
            .and_then(|v| W::from_json(&v["world"]).ok())
            .map(|w| {
                let mut scratch = Stats::default();
                run_isolated(&w, &mut scratch).violation.is_some()
            });
        match still {
            Some(true) => {
                known_lines += 1;
                println!("KNOWN-FINDING: property={} {} ({})", prop, e["what"].as_str().unwrap_or(""), e["replay"].as_str().unwrap_or(""));
            }
            Some(false) => println!("note: listed finding {} no longer reproduces on this tree", e["id"]),
            None => println!("note: listed finding {} has no readable replay file", e["id"]),
        }
    }

    // 4. violations
    let mut new_violations = 0u64;
    let mut harness_errors = 0u64;
    let _ = std::fs::create_dir_all(format!("{}/replays", verif_dir()));
    let mut confirmed_history: Vec<Value> = Vec::new();
    let mut m_violations: Vec<Value> = Vec::new();
    for v in &m.violations {
        if v["needs_history"] == true {
            let exe = std::env::current_exe().expect("current_exe");
            let p = &v["prefix"];
            let out = Command::new(&exe).arg("prefix").arg(prop).arg("--seed").arg(seed.to_string())
                .arg("--start").arg(p["start"].to_string()).arg("--stride").arg(p["stride"].to_string()).arg("--index").arg(p["index"].to_string())
                .arg("--tier").arg(tier.name()).stdin(Stdio::null()).stderr(Stdio::null()).output();
            let text = out.as_ref().map(|o| String::from_utf8_lossy(&o.stdout).to_string()).unwrap_or_default();
            if let Some(l) = text.lines().find(|l| l.starts_with("PREFIX-VIOLATION")) {
                let mut c = v.clone();
                c["detail"] = json!(format!("{} [the outcome depends on state that outlives a call and a thread: replaying this world alone is not enough, the replay re-runs the worker's history; confirmed: {}]", v["detail"].as_str().unwrap_or(""), l.chars().take(200).collect::<String>()));
                c["replay_kind"] = json!("worker_prefix");
                c["verif_seed"] = json!(seed);
                c["tier"] = json!(tier.name());
                confirmed_history.push(c);
            } else {
                // Not even the worker's history reproduces it. Last question: is this world deterministic at all? Run it a
                // few times, each in a fresh process, with everything the simulator owns fixed by the world.
                let idx = v["run_index"].as_u64().unwrap_or(0);
                let outs = fresh_runs(prop, seed, idx, tier, 5);
                let distinct: BTreeSet<&String> = outs.iter().collect();
                if W::NONDETERMINISM_IS_VIOLATION && distinct.len() > 1 {
                    let mut c = v.clone();
                    c["class"] = json!("nondeterministic_between_identical_executions");
                    c["detail"] = json!(format!("{} [the same world, executed {} times in fresh processes with schedule, heap, hash keys and faults fixed by the world, ended in {} different ways: the outcome depends on something outside the simulator's seams (real threads, a clock, OS state)]", v["detail"].as_str().unwrap_or(""), outs.len(), distinct.len()));
                    c["replay_kind"] = json!("fresh_process_repeat");
                    c["verif_seed"] = json!(seed);
                    c["tier"] = json!(tier.name());
                    confirmed_history.push(c);
                } else {
                    println!("HARNESS-ERROR a violation at run index {} did not reproduce in the same process nor when the worker's history was re-run: {}", v["run_index"], v["detail"]);
                    return Some(2);
                }
            }
        } else {
            m_violations.push(v.clone());
        }
    }
    for v in crash_violations.iter().chain(confirmed_history.iter()).chain(m_violations.iter()) {
        if v.get("harness_error").is_some() {
            harness_errors += 1;
            println!("HARNESS-ERROR {}", v);
            continue;
        }
        let sig = v["signature"].as_str().unwrap_or("");
        // a listed finding is identified by the signature of the world in its replay file
        let listed = kf.known(prop).into_iter().find(|e| {
            std::fs::read_to_string(format!("{}/{}", verif_dir(), e["replay"].as_str().unwrap_or("")))
                .ok()
                .and_then(|s| serde_json::from_str::<Value>(&s).ok())
                .and_then(|f| W::from_json(&f["world"]).ok())
                .map(|w| w.signature() == sig)
                .unwrap_or(false)
        });
        if let Some(e) = listed {
            known_lines += 1;
            println!("KNOWN-FINDING: property={} {} (met again at run index {})", prop, e["what"].as_str().unwrap_or(""), v["run_index"]);
            continue;
        }
        new_violations += 1;
        if new_violations > 5 {
            continue; // counted, but five replay files are enough
        }
        let path = format!("{}/replays/{}-{}-{}.json", verif_dir(), prop, v["run_seed"], new_violations);
        let file = json!({"property": prop, "verif_seed": seed, "run_index": v["run_index"], "run_seed": v["run_seed"],
            "class": v["class"], "detail": v["detail"], "log_hash": v["log_hash"], "world": v["world"],
            "replay_kind": v.get("replay_kind").cloned().unwrap_or(json!("world")), "prefix": v.get("prefix").cloned().unwrap_or(Value::Null),
            "tier": tier.name()});
        let _ = std::fs::write(&path, serde_json::to_string_pretty(&file).unwrap());
        println!("violation class={} detail={}", v["class"].as_str().unwrap_or(""), v["detail"].as_str().unwrap_or(""));
        println!("VIOLATION property={} replay={}", prop, path);
    }
    new_violations += extra.extra_violations;

    // 5. evidence
    let wall = t0.elapsed().as_secs_f64();
    let mut cov = Map::new();
    cov.insert("evaluations".into(), json!(m.done + extra.extra_evaluations));
    cov.insert("distinct_nontrivial".into(), json!(m.distinct.len()));
    cov.insert("rule".into(), json!(extra.rule));
    cov.insert("scheduling_granularity".into(), json!(if std::env::var("SIM_CALL_GRANULARITY").is_ok() { "call boundaries only (fallback after a stall)" } else { "call boundaries and sweep events" }));
    cov.insert("samples".into(), Value::Array(m.samples.clone()));
    cov.insert("simulated_runs".into(), json!(m.done));
    cov.insert("runs_per_hour".into(), json!((m.done as f64 / wall.max(1e-9) * 3600.0) as u64));
    cov.insert("determinism_selftest".into(), json!({"runs_repeated_in_other_process_and_worker_count": selftested, "divergent": divergent}));
    // this code reads no clock: logical time is what the simulator stepped through
    let lt: BTreeMap<&String, &u64> = m.counters.iter().filter(|(k, _)| {
        ["scheduler_steps", "sweep_events_processed", "library_calls_in_simulation", "operations", "comparator_calls", "keys_inserted", "boolean_input_edges", "calls_reference", "calls_variant"].contains(&k.as_str())
    }).collect();
    cov.insert("logical_time_covered".into(), json!(lt));
    cov.insert("counters".into(), json!(m.counters));
    cov.insert("distinct_secondary_measure".into(), json!(m.distinct2.len()));
    cov.insert("sim_heap".into(), json!(m.heap));
    cov.insert("known_finding_lines".into(), json!(known_lines));
    cov.insert("notes".into(), json!(m.notes.iter().collect::<Vec<_>>()));
    let zero_probes: Vec<&String> = m.counters.iter().filter(|(k, n)| k.starts_with("probe_") && **n == 0).map(|(k, _)| k).collect();
    cov.insert("probes_stuck_at_zero".into(), json!(zero_probes));
    for (k, v) in extra.coverage.clone() {
        cov.insert(k, v);
    }
    let ev = json!({
        "property_id": prop, "tier": tier.name(), "seed": seed, "level": extra.level,
        "coverage": cov, "assumptions": extra.assumptions, "wall_s": wall, "violations": new_violations,
    });
    let _ = std::fs::create_dir_all(format!("{}/evidence", verif_dir()));
    let evp = format!("{}/evidence/{}.json", verif_dir(), prop);
    if let Err(e) = std::fs::write(&evp, serde_json::to_string_pretty(&ev).unwrap()) {
        println!("HARNESS-ERROR cannot write evidence {}: {}", evp, e);
        return Some(2);
    }
    println!("{}: {} runs, {} distinct states, {} new violations, {} known-finding lines, {:.1}s; evidence {}",
        prop, m.done, m.distinct.len(), new_violations, known_lines, wall, evp);
    for (k, n) in &m.counters {
        if k.starts_with("harness_") && *n > 0 {
            println!("HARNESS-ERROR {} = {}", k, n);
            harness_errors += 1;
        }
    }
    if harness_errors > 0 {
        return Some(2);
    }
    if new_violations > 0 {
        Some(1)
    } else {
        Some(0)
    }
}

/// `sim replay <file>`: run exactly the recorded world in this fresh process.
pub fn replay_main<W: World>(v: &Value) -> i32 {
    if v["replay_kind"] == "fresh_process_repeat" {
        // the finding is that identical executions differ: execute the world several times, each in a fresh process
        let exe = std::env::current_exe().expect("current_exe");
        let file = std::env::args().nth(2).unwrap_or_default();
        let outs: Vec<String> = (0..8).filter_map(|_| Command::new(&exe).arg("oneworld").arg(&file).stdin(Stdio::null()).stderr(Stdio::null()).output().ok()
            .and_then(|o| String::from_utf8_lossy(&o.stdout).lines().find(|l| l.starts_with("DONE ")).map(|l| l.to_string()))).collect();
        let distinct: BTreeSet<&String> = outs.iter().collect();
        println!("{} executions in fresh processes, {} distinct outcomes", outs.len(), distinct.len());
        for d in &distinct {
            println!("  {}", d);
        }
        if distinct.len() > 1 || outs.iter().any(|o| !o.trim_end().ends_with("violation=")) {
            println!("VIOLATION property={} replay=(this file)", W::PROP);
            return 1;
        }
        println!("no violation on this tree");
        return 0;
    }
    if v["replay_kind"] == "prefix_pair" {
        // the finding is that run i ends differently depending on what the process did before: re-run both histories
        let exe = std::env::current_exe().expect("current_exe");
        let mut outs = Vec::new();
        for p in v["prefixes"].as_array().into_iter().flatten() {
            let o = Command::new(&exe).arg("prefix").arg(W::PROP).arg("--seed").arg(v["verif_seed"].to_string()).arg("--start").arg(p["start"].to_string())
                .arg("--stride").arg(p["stride"].to_string()).arg("--index").arg(p["index"].to_string()).arg("--tier").arg(v["tier"].as_str().unwrap_or("quick"))
                .stdin(Stdio::null()).stderr(Stdio::null()).output();
            let line = o.ok().and_then(|o| String::from_utf8_lossy(&o.stdout).lines().find(|l| l.starts_with("PREFIX-")).map(|l| l.chars().take(160).collect::<String>())).unwrap_or_default();
            println!("history start={} stride={}: {}", p["start"], p["stride"], line);
            outs.push(line);
        }
        if outs.len() == 2 && outs[0] != outs[1] {
            println!("VIOLATION property={} replay=(this file)", W::PROP);
            return 1;
        }
        println!("no violation on this tree");
        return 0;
    }
    if v["replay_kind"] == "worker_prefix" {
        let p = &v["prefix"];
        let args: Vec<String> = vec!["--seed".into(), v["verif_seed"].to_string(), "--start".into(), p["start"].to_string(),
            "--stride".into(), p["stride"].to_string(), "--index".into(), p["index"].to_string(), "--tier".into(), v["tier"].as_str().unwrap_or("quick").to_string()];
        println!("replaying the history of the worker process up to run index {} (the outcome depends on state that outlives a world)", p["index"]);
        let code = prefix_main::<W>(&args);
        if code == 1 {
            println!("VIOLATION property={} replay=(this file)", W::PROP);
        } else {
            println!("no violation on this tree");
        }
        return code;
    }
    let w = match W::from_json(&v["world"]) {
        Ok(w) => w,
        Err(e) => {
            println!("HARNESS-ERROR unreadable replay world: {}", e);
            return 2;
        }
    };
    let mut st = Stats::default();
    let a = run_isolated(&w, &mut st);
    let b = run_isolated(&w, &mut st);
    println!("replay log_hash={:016x} (second execution {:016x}); recorded {}", a.log_hash, b.log_hash, v["log_hash"]);
    let rec = v["log_hash"].as_str().unwrap_or("");
    if rec.len() == 16 {
        println!("event-log hash equals the recorded one: {}", if format!("{:016x}", a.log_hash) == rec { "yes (exact reproduction)" } else { "no (the tree or the simulator changed since the file was written)" });
    }
    match a.violation {
        Some(x) => {
            println!("violation class={} detail={}", x.class, x.detail);
            println!("VIOLATION property={} replay=(this file)", W::PROP);
            1
        }
        None => {
            println!("no violation on this tree");
            0
        }
    }
}
