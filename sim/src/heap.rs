//! Simulated heap and simulated OS randomness.
//!
//! `SimHeap` is the `#[global_allocator]` of the `sim` binary. A thread that has switched a
//! policy on (`with_policy`) gets its blocks from a private arena at a fixed virtual address,
//! placed by the policy (ascending / descending / no-reuse / seeded random slot) and filled
//! with a policy-chosen pattern; freed blocks are poisoned. Everything else (harness
//! bookkeeping, threads that did not opt in, blocks that do not fit a size class) goes to the
//! system allocator. Deallocation is routed by address, so blocks may cross the boundary.
//!
//! `getrandom` is defined here as a strong symbol: std's `RandomState` obtains its per-thread
//! keys through the (weak) libc symbol of that name, so hash iteration order becomes a
//! function of `set_hash_seed`.

use std::alloc::{GlobalAlloc, Layout, System};
use std::cell::Cell;
use std::sync::atomic::{AtomicBool, AtomicU64, AtomicUsize, Ordering::*};

pub struct SimHeap;

#[derive(Clone, Copy, PartialEq, Eq, Debug)]
#[repr(u8)]
pub enum Place {
    Off = 0,
    /// reuse last freed slot, else next higher address
    AscLifo = 1,
    /// reuse last freed slot, else next lower address
    DescLifo = 2,
    /// never reuse, ascending
    AscFresh = 3,
    /// never reuse, descending
    DescFresh = 4,
    /// seeded random slot among free slots (fresh slots enter the free set 64 at a time)
    Random = 5,
    /// reuse the slot that has been free longest (a re-created structure lands where the old one was), else next higher
    AscFifo = 6,
}
pub const PLACES: [Place; 6] = [Place::AscLifo, Place::DescLifo, Place::AscFresh, Place::DescFresh, Place::Random, Place::AscFifo];

#[derive(Clone, Copy, PartialEq, Eq, Debug)]
#[repr(u8)]
pub enum Fill {
    A5 = 0,
    Zero = 1,
    Junk = 2,
    Ones = 3,
}
pub const FILLS: [Fill; 4] = [Fill::A5, Fill::Zero, Fill::Junk, Fill::Ones];

#[derive(Clone, Copy, PartialEq, Eq, Debug)]
pub struct Policy {
    pub place: Place,
    pub fill: Fill,
}
impl Policy {
    pub const OFF: Policy = Policy { place: Place::Off, fill: Fill::A5 };
    /// the "fault-free" simulated heap: behaves like an ordinary allocator, but is owned by the simulator
    pub const CANON: Policy = Policy { place: Place::AscLifo, fill: Fill::A5 };
    /// code 0 in a world file means "canonical", never the system allocator
    pub fn from_world(code: u32) -> Policy {
        if code & 0xff == 0 { Policy::CANON } else { Policy::from_code(code) }
    }
    pub fn code(self) -> u32 {
        self.place as u32 | (self.fill as u32) << 8
    }
    pub fn from_code(c: u32) -> Policy {
        let place = match c & 0xff {
            1 => Place::AscLifo,
            2 => Place::DescLifo,
            3 => Place::AscFresh,
            4 => Place::DescFresh,
            5 => Place::Random,
            6 => Place::AscFifo,
            _ => Place::Off,
        };
        let fill = match (c >> 8) & 0xff {
            1 => Fill::Zero,
            2 => Fill::Junk,
            3 => Fill::Ones,
            _ => Fill::A5,
        };
        Policy { place, fill }
    }
    pub fn name(self) -> String {
        format!("{:?}/{:?}", self.place, self.fill)
    }
}

thread_local! {
    static MODE: Cell<u32> = const { Cell::new(0) };
}

const ARENA_ADDR: usize = 0x5100_0000_0000;
const NCLASS: usize = 40; // 32 classes of 16..512 step 16, then 1K,2K,...,128K
const CLASS_BYTES: usize = 64 << 20; // virtual bytes per class
const ARENA_BYTES: usize = NCLASS * CLASS_BYTES;
const META_ADDR: usize = 0x5200_0000_0000;
const META_PER_CLASS: usize = (CLASS_BYTES / 16) * 4;
pub const POISON: u8 = 0xDD;

fn class_of(size: usize) -> Option<(usize, usize)> {
    if size == 0 {
        return None;
    }
    if size <= 512 {
        let c = (size + 15) / 16 - 1;
        Some((c, (c + 1) * 16))
    } else {
        let mut c = 32;
        let mut s = 1024;
        while s < size {
            s <<= 1;
            c += 1;
        }
        if c < NCLASS {
            Some((c, s))
        } else {
            None
        }
    }
}

#[derive(Clone, Copy)]
struct Class {
    lo: u32,     // next fresh slot from below
    hi: u32,     // one past the highest free fresh slot from above
    nfree: u32,  // entries in the free stack
    nslots: u32, // total slots
}

struct Arena {
    ready: bool,
    classes: [Class; NCLASS],
    rng: u64,
    live: usize,
}

static LOCK: AtomicBool = AtomicBool::new(false);
static mut ARENA: Arena = Arena {
    ready: false,
    classes: [Class { lo: 0, hi: 0, nfree: 0, nslots: 0 }; NCLASS],
    rng: 0,
    live: 0,
};
pub static SERVED: AtomicU64 = AtomicU64::new(0);
pub static SERVED_BY_PLACE: [AtomicU64; 7] = [const { AtomicU64::new(0) }; 7];
pub static FREED: AtomicU64 = AtomicU64::new(0);
pub static FELL_THROUGH: AtomicU64 = AtomicU64::new(0);
static HIGH_WATER: AtomicUsize = AtomicUsize::new(0);

struct Guard;
impl Guard {
    fn take() -> Guard {
        while LOCK.compare_exchange_weak(false, true, Acquire, Relaxed).is_err() {
            std::hint::spin_loop();
        }
        Guard
    }
}
impl Drop for Guard {
    fn drop(&mut self) {
        LOCK.store(false, Release);
    }
}

unsafe fn arena() -> &'static mut Arena {
    &mut *std::ptr::addr_of_mut!(ARENA)
}

unsafe fn map_fixed(addr: usize, len: usize) -> bool {
    let p = libc::mmap(
        addr as *mut libc::c_void,
        len,
        libc::PROT_READ | libc::PROT_WRITE,
        libc::MAP_PRIVATE | libc::MAP_ANONYMOUS | libc::MAP_NORESERVE | libc::MAP_FIXED_NOREPLACE,
        -1,
        0,
    );
    p as usize == addr
}

unsafe fn init(a: &mut Arena) -> bool {
    if a.ready {
        return true;
    }
    if !map_fixed(ARENA_ADDR, ARENA_BYTES) || !map_fixed(META_ADDR, NCLASS * META_PER_CLASS) {
        return false;
    }
    for c in 0..NCLASS {
        let sz = class_size(c);
        let n = (CLASS_BYTES / sz) as u32;
        a.classes[c] = Class { lo: 0, hi: n, nfree: 0, nslots: n };
    }
    a.ready = true;
    true
}

fn class_size(c: usize) -> usize {
    if c < 32 {
        (c + 1) * 16
    } else {
        1024 << (c - 32)
    }
}

fn in_arena(p: *mut u8) -> bool {
    let a = p as usize;
    (ARENA_ADDR..ARENA_ADDR + ARENA_BYTES).contains(&a)
}

unsafe fn free_stack(c: usize) -> *mut u32 {
    (META_ADDR + c * META_PER_CLASS) as *mut u32
}

fn next_rng(a: &mut Arena) -> u64 {
    a.rng = a.rng.wrapping_add(0x9E37_79B9_7F4A_7C15);
    let mut z = a.rng;
    z = (z ^ (z >> 30)).wrapping_mul(0xBF58_476D_1CE4_E5B9);
    z = (z ^ (z >> 27)).wrapping_mul(0x94D0_49BB_1331_11EB);
    z ^ (z >> 31)
}

unsafe fn arena_alloc(size: usize, zeroed: bool, pol: Policy) -> *mut u8 {
    let (c, csz) = match class_of(size) {
        Some(x) => x,
        None => return std::ptr::null_mut(),
    };
    let _g = Guard::take();
    let a = arena();
    if !init(a) {
        return std::ptr::null_mut();
    }
    let fs = free_stack(c);
    let cl = &mut a.classes[c];
    let slot: u32;
    match pol.place {
        Place::AscLifo | Place::DescLifo if cl.nfree > 0 => {
            cl.nfree -= 1;
            slot = *fs.add(cl.nfree as usize);
        }
        Place::AscFifo if cl.nfree > 0 => {
            slot = *fs;
            cl.nfree -= 1;
            std::ptr::copy(fs.add(1), fs, cl.nfree as usize);
        }
        Place::AscLifo | Place::AscFresh | Place::AscFifo => {
            if cl.lo >= cl.hi {
                return std::ptr::null_mut();
            }
            slot = cl.lo;
            cl.lo += 1;
        }
        Place::DescLifo | Place::DescFresh => {
            if cl.lo >= cl.hi {
                return std::ptr::null_mut();
            }
            cl.hi -= 1;
            slot = cl.hi;
        }
        Place::Random => {
            if cl.nfree < 8 {
                // admit a chunk of fresh slots to the free set
                let mut k = 0;
                while k < 64 && cl.lo < cl.hi {
                    *fs.add(cl.nfree as usize) = cl.lo;
                    cl.nfree += 1;
                    cl.lo += 1;
                    k += 1;
                }
            }
            if cl.nfree == 0 {
                return std::ptr::null_mut();
            }
            let n = cl.nfree as u64;
            let r = next_rng(a);
            let cl = &mut a.classes[c];
            let i = ((r as u128 * n as u128) >> 64) as usize;
            slot = *fs.add(i);
            cl.nfree -= 1;
            *fs.add(i) = *fs.add(cl.nfree as usize);
        }
        Place::Off => return std::ptr::null_mut(),
    }
    a.live += 1;
    let p = (ARENA_ADDR + c * CLASS_BYTES + slot as usize * csz) as *mut u8;
    if zeroed {
        std::ptr::write_bytes(p, 0, csz);
    } else {
        match pol.fill {
            Fill::A5 => std::ptr::write_bytes(p, 0xA5, csz),
            Fill::Zero => std::ptr::write_bytes(p, 0, csz),
            Fill::Ones => std::ptr::write_bytes(p, 0xFF, csz),
            Fill::Junk => {
                let mut i = 0;
                while i + 8 <= csz {
                    let r = next_rng(a);
                    (p.add(i) as *mut u64).write_unaligned(r);
                    i += 8;
                }
            }
        }
    }
    let used = p as usize + csz - ARENA_ADDR;
    HIGH_WATER.fetch_max(used, Relaxed);
    SERVED.fetch_add(1, Relaxed);
    SERVED_BY_PLACE[pol.place as usize].fetch_add(1, Relaxed);
    p
}

unsafe fn arena_free(p: *mut u8) {
    let off = p as usize - ARENA_ADDR;
    let c = off / CLASS_BYTES;
    let csz = class_size(c);
    let slot = ((off % CLASS_BYTES) / csz) as u32;
    std::ptr::write_bytes(p, POISON, csz);
    let _g = Guard::take();
    let a = arena();
    let cl = &mut a.classes[c];
    let fs = free_stack(c);
    *fs.add(cl.nfree as usize) = slot;
    cl.nfree += 1;
    a.live -= 1;
    FREED.fetch_add(1, Relaxed);
}

fn arena_block_size(p: *mut u8) -> usize {
    let off = p as usize - ARENA_ADDR;
    class_size(off / CLASS_BYTES)
}

unsafe impl GlobalAlloc for SimHeap {
    unsafe fn alloc(&self, l: Layout) -> *mut u8 {
        let m = MODE.try_with(|m| m.get()).unwrap_or(0);
        if m & 0xff != 0 && l.align() <= 16 {
            let p = arena_alloc(l.size(), false, Policy::from_code(m));
            if !p.is_null() {
                return p;
            }
            FELL_THROUGH.fetch_add(1, Relaxed);
        }
        System.alloc(l)
    }
    unsafe fn alloc_zeroed(&self, l: Layout) -> *mut u8 {
        let m = MODE.try_with(|m| m.get()).unwrap_or(0);
        if m & 0xff != 0 && l.align() <= 16 {
            let p = arena_alloc(l.size(), true, Policy::from_code(m));
            if !p.is_null() {
                return p;
            }
            FELL_THROUGH.fetch_add(1, Relaxed);
        }
        System.alloc_zeroed(l)
    }
    unsafe fn dealloc(&self, p: *mut u8, l: Layout) {
        if in_arena(p) {
            arena_free(p)
        } else {
            System.dealloc(p, l)
        }
    }
    unsafe fn realloc(&self, p: *mut u8, l: Layout, new_size: usize) -> *mut u8 {
        let m = MODE.try_with(|m| m.get()).unwrap_or(0);
        if !in_arena(p) && m & 0xff == 0 {
            return System.realloc(p, l, new_size);
        }
        // simulated heap: a reallocation always moves
        let nl = Layout::from_size_align_unchecked(new_size, l.align());
        let q = self.alloc(nl);
        if !q.is_null() {
            let old = if in_arena(p) { arena_block_size(p).min(l.size()) } else { l.size() };
            std::ptr::copy_nonoverlapping(p, q, old.min(new_size));
            self.dealloc(p, l);
        }
        q
    }
}

/// Blocks currently held in the arena.
pub fn live() -> usize {
    let _g = Guard::take();
    unsafe { arena().live }
}

/// Forget every placement decision so far: the next run starts from an empty arena whose
/// behaviour depends on `seed` only. Refuses (returns the live count) while blocks are held.
pub fn reset(seed: u64) -> Result<(), usize> {
    let _g = Guard::take();
    unsafe {
        let a = arena();
        if !init(a) {
            return Ok(());
        }
        if a.live != 0 {
            return Err(a.live);
        }
        for c in 0..NCLASS {
            let n = a.classes[c].nslots;
            a.classes[c] = Class { lo: 0, hi: n, nfree: 0, nslots: n };
        }
        a.rng = seed;
    }
    Ok(())
}

pub fn current() -> Policy {
    Policy::from_code(MODE.with(|m| m.get()))
}

struct Restore(u32);
impl Drop for Restore {
    fn drop(&mut self) {
        MODE.with(|m| m.set(self.0));
    }
}

/// Run `f` with the calling thread's allocations served under `p` (panic safe).
pub fn with_policy<R>(p: Policy, f: impl FnOnce() -> R) -> R {
    let _r = Restore(MODE.with(|m| m.replace(p.code())));
    f()
}

/// Run `f` with the system allocator (harness bookkeeping inside a simulated region).
pub fn off<R>(f: impl FnOnce() -> R) -> R {
    with_policy(Policy::OFF, f)
}

// ---------------------------------------------------------------- OS randomness

static HASH_OWNED: AtomicBool = AtomicBool::new(false);
static HASH_STATE: AtomicU64 = AtomicU64::new(0);
pub static GETRANDOM_CALLS: AtomicU64 = AtomicU64::new(0);

/// From now on every `getrandom` of this process is answered from a SplitMix64 stream.
pub fn set_hash_seed(seed: u64) {
    HASH_STATE.store(seed, SeqCst);
    HASH_OWNED.store(true, SeqCst);
}

#[no_mangle]
pub unsafe extern "C" fn getrandom(buf: *mut u8, len: usize, flags: u32) -> isize {
    if !HASH_OWNED.load(SeqCst) {
        return libc::syscall(libc::SYS_getrandom, buf, len, flags) as isize;
    }
    GETRANDOM_CALLS.fetch_add(1, Relaxed);
    let mut i = 0;
    while i < len {
        let s = HASH_STATE.fetch_add(0x9E37_79B9_7F4A_7C15, SeqCst).wrapping_add(0x9E37_79B9_7F4A_7C15);
        let mut z = s;
        z = (z ^ (z >> 30)).wrapping_mul(0xBF58_476D_1CE4_E5B9);
        z = (z ^ (z >> 27)).wrapping_mul(0x94D0_49BB_1331_11EB);
        z ^= z >> 31;
        let bs = z.to_le_bytes();
        let mut k = 0;
        while k < 8 && i < len {
            *buf.add(i) = bs[k];
            i += 1;
            k += 1;
        }
    }
    len as isize
}

pub fn stats_json() -> serde_json::Value {
    serde_json::json!({
        "arena_blocks_served": SERVED.load(Relaxed),
        "arena_blocks_freed": FREED.load(Relaxed),
        "served_by_place": {
            "AscLifo": SERVED_BY_PLACE[1].load(Relaxed), "DescLifo": SERVED_BY_PLACE[2].load(Relaxed),
            "AscFresh": SERVED_BY_PLACE[3].load(Relaxed), "DescFresh": SERVED_BY_PLACE[4].load(Relaxed),
            "Random": SERVED_BY_PLACE[5].load(Relaxed), "AscFifo": SERVED_BY_PLACE[6].load(Relaxed)},
        "fell_through_to_system": FELL_THROUGH.load(Relaxed),
        "arena_high_water_bytes": HIGH_WATER.load(Relaxed),
        "getrandom_calls_answered": GETRANDOM_CALLS.load(Relaxed),
    })
}
