//! C18 — bounded stack: the simulator owns the stack budget and the history that shapes the
//! tree; each scenario runs in a child process whose exit status is the oracle, plus an
//! in-process stack-depth probe in the comparator and in element drops.

use crate::batch::{Stats, Tier, Verdict, Violation, World};
use crate::rng::{LogHash, Rng};
use geo_booleanop::boolean::BooleanOp;
use geo_booleanop::splay::{SplaySet, SplayTree};
use geo_types::{Coord, LineString, MultiPolygon, Polygon};
use serde_json::{json, Value};
use std::cell::Cell;
use std::cmp::Ordering;
use std::io::Write;
use std::os::unix::process::ExitStatusExt;
use std::process::{Command, Stdio};

#[derive(Clone, Debug, PartialEq)]
pub struct C18World {
    /// "tree" | "set" | "boolean"
    pub kind: String,
    pub stack_bytes: u64,
    pub n: u64,
    /// asc | desc | zigzag | blocks | random
    pub shape: String,
    pub shape_seed: u64,
    /// none | lookups | removals
    pub post: String,
    pub post_count: u64,
    /// drop | clear | consume_fwd | consume_back | consume_mixed | partial_fwd | partial_back | extend_drop
    pub teardown: String,
    pub partial: u64,
    /// boolean scenario: intersection | difference
    pub op: String,
    /// first operation on the freshly built shape, before anything else can restructure it:
    /// none | remove_min | remove_max | next_min | prev_max | contains_min | contains_max | min | max
    pub first: String,
    /// build profile of the child that runs the scenario: "release" | "debug" (opt-level 0: larger frames)
    pub profile: String,
    /// how the container is built: "insert" (key by key) | "extend" (one `extend` call over the whole key order) |
    /// "extend_batches" (`extend` calls of 1..4096 keys)
    pub build: String,
}

const GUARD: usize = 64 << 10;
const CHILD_TIMEOUT_S: u64 = 150;
pub const STACKS: [u64; 2] = [8 << 20, 2 << 20];
const SHAPES: [&str; 5] = ["asc", "desc", "zigzag", "blocks", "random"];
const FIRSTS: [&str; 17] = ["none", "remove_min", "remove_max", "next_min", "prev_max", "contains_min", "contains_max", "min", "max",
    "get_min", "get_max", "getmut_min", "getmut_max", "index_min", "index_max", "find_min", "find_max"];
const TEARDOWNS: [&str; 8] = ["drop", "clear", "consume_fwd", "consume_back", "consume_mixed", "partial_fwd", "partial_back", "extend_drop"];

/// Fixed grid of full-scale scenarios (index -> scenario) followed by seeded ones.
fn grid(tier: Tier) -> Vec<C18World> {
    let mut g = Vec::new();
    let base = |kind: &str, stack: u64, n: u64, shape: &str, teardown: &str| C18World {
        kind: kind.into(), stack_bytes: stack, n, shape: shape.into(), shape_seed: 1, post: "none".into(), post_count: 0,
        teardown: teardown.into(), partial: n / 3, op: "intersection".into(), first: "none".into(), profile: "release".into(), build: "insert".into(),
    };
    // every teardown mode on both chain directions at 3e6 keys, both budgets
    for (i, td) in TEARDOWNS.iter().enumerate() {
        let shape = if i % 2 == 0 { "asc" } else { "desc" };
        let kind = if i % 3 == 0 { "set" } else { "tree" };
        g.push(base(kind, STACKS[i % 2], 3_000_000, shape, td));
    }
    for (i, sh) in SHAPES.iter().enumerate() {
        g.push(base(if i % 2 == 0 { "tree" } else { "set" }, STACKS[(i + 1) % 2], 1_000_000, sh, "drop"));
    }
    // one operation aimed at either end of an untouched chain (the far end is n levels deep)
    for (i, f) in FIRSTS.iter().enumerate().skip(1) {
        for (j, sh) in ["asc", "desc"].iter().enumerate() {
            let map_only = f.starts_with("get") || f.starts_with("index");
            let mut w = base(if (i + j) % 2 == 0 || map_only { "tree" } else { "set" }, STACKS[(i + j) % 2], 3_000_000, sh, "drop");
            w.first = (*f).into();
            g.push(w);
        }
    }
    // built by `extend` (one call / batches) instead of key-by-key insertion
    for (i, (sh, b)) in [("asc", "extend"), ("desc", "extend"), ("zigzag", "extend"), ("asc", "extend_batches"), ("desc", "extend_batches"), ("blocks", "extend")].iter().enumerate() {
        let mut w = base(if i % 2 == 0 { "tree" } else { "set" }, STACKS[i % 2], 3_000_000, sh, if i % 3 == 2 { "partial_back" } else { "drop" });
        w.build = (*b).into();
        g.push(w);
        let mut w = base(if i % 2 == 1 { "tree" } else { "set" }, 2 << 20, 60_000, sh, "drop");
        w.build = (*b).into();
        w.profile = "debug".into();
        g.push(w);
    }
    // chain partially restructured by lookups / removals before teardown
    let mut w = base("tree", 2 << 20, 2_000_000, "asc", "drop");
    w.post = "lookups".into();
    w.post_count = 200;
    g.push(w);
    let mut w = base("set", 8 << 20, 2_000_000, "desc", "partial_fwd");
    w.post = "removals".into();
    w.post_count = 1000;
    g.push(w);
    // Boolean operations whose sweep stops early with a full sweep line
    for (teeth, op, stack) in [(250_000u64, "intersection", 8u64 << 20), (100_000, "difference", 2 << 20)] {
        let mut w = base("boolean", stack, teeth, "asc", "drop");
        w.op = op.into();
        g.push(w);
    }
    for (n, op, stack) in [(100_000u64, "union", 2u64 << 20), (240_000, "xor", 8 << 20)] {
        let mut w = base("boolean_stairs", stack, n, "asc", "drop");
        w.op = op.into();
        g.push(w);
    }
    // size ladder with unoptimised frames: thresholds below which a recursive path might be kept "because it is small"
    for (i, n) in [3_000u64, 10_000, 20_000, 40_000, 60_000, 65_000, 100_000, 130_000, 300_000].iter().enumerate() {
        for (j, td) in ["drop", "clear", "partial_fwd", "partial_back"].iter().enumerate() {
            let mut w = base(if (i + j) % 2 == 0 { "tree" } else { "set" }, 2 << 20, *n, if (i + j) % 3 == 0 { "desc" } else { "asc" }, td);
            w.profile = "debug".into();
            w.partial = 7;
            g.push(w);
        }
    }
    // far-end first operations with unoptimised frames (a tail call that an optimised build turns into a loop)
    for (i, (f, sh)) in [("next_min", "asc"), ("prev_max", "desc"), ("remove_max", "desc"), ("remove_min", "asc"), ("contains_min", "asc"), ("max", "desc"), ("min", "asc"),
        ("get_min", "asc"), ("get_max", "desc"), ("getmut_min", "asc"), ("index_max", "desc"), ("find_min", "asc"), ("find_max", "desc")].iter().enumerate() {
        let map_only = f.starts_with("get") || f.starts_with("index");
        let mut w = base(if i % 2 == 0 || map_only { "tree" } else { "set" }, 2 << 20, 100_000, sh, "drop");
        w.first = (*f).into();
        w.profile = "debug".into();
        g.push(w);
    }
    // partial consumption of a large chain that leaves a small tail to be dropped
    for (i, tail) in [1_000u64, 20_000, 40_000, 65_000, 100_000, 131_000].iter().enumerate() {
        let mut w = base("tree", 2 << 20, 1_000_000, if i % 2 == 0 { "asc" } else { "desc" }, if i % 2 == 0 { "partial_fwd" } else { "partial_back" });
        w.partial = 1_000_000 - tail;
        w.profile = if i % 3 == 0 { "release".into() } else { "debug".into() };
        g.push(w);
    }
    for (kind, n, op, stack, prof) in [("boolean_fan", 14_000u64, "union_right", 2u64 << 20, "debug"), ("boolean_fan", 30_000u64, "union", 2u64 << 20, "debug"), ("boolean", 20_000u64, "intersection", 2u64 << 20, "debug"), ("boolean", 30_000, "difference", 2 << 20, "debug"), ("boolean_stairs", 30_000, "union", 2 << 20, "debug"),
        ("boolean_hcomb", 30_000, "union", 2 << 20, "debug"), ("boolean_overlap", 30_000, "union", 2 << 20, "debug"), ("boolean_sieve", 30_000, "intersection", 2 << 20, "debug")] {
        let mut w = base(kind, stack, n, "asc", "drop");
        w.op = op.into();
        w.profile = prof.into();
        g.push(w);
    }
    for (kind, n, op, stack) in [("boolean_nested", 100_000u64, "union", 8u64 << 20), ("boolean_nested", 60_000, "intersection", 2 << 20),
        ("boolean_nested", 100_000, "difference", 8 << 20), ("boolean_grid", 100_000, "xor", 2 << 20), ("boolean_grid", 120_000, "union", 8 << 20),
        ("boolean_fan", 120_000, "union", 2 << 20), ("boolean_fan", 300_000, "xor", 8 << 20),
        ("boolean_row", 60_000, "union", 2 << 20), ("boolean_row", 250_000, "xor", 8 << 20),
        ("boolean_nested", 120_000, "intersection_dot", 2 << 20), ("boolean_nested", 120_000, "difference_dot", 2 << 20),
        ("boolean_nested", 120_000, "xor", 2 << 20),
        ("boolean_hcomb", 150_000, "union", 2 << 20), ("boolean_hcomb", 150_000, "intersection", 2 << 20), ("boolean_hcomb", 250_000, "xor", 8 << 20),
        ("boolean_overlap", 150_000, "union", 2 << 20), ("boolean_overlap", 150_000, "xor", 2 << 20), ("boolean_overlap", 250_000, "difference", 8 << 20),
        ("boolean_sieve", 100_000, "intersection", 2 << 20), ("boolean_sieve", 100_000, "union", 2 << 20), ("boolean_sieve", 200_000, "xor", 8 << 20), ("boolean_sieve", 100_000, "difference", 2 << 20)] {
        let mut w = base(kind, stack, n, "asc", "drop");
        w.op = op.into();
        g.push(w);
    }
    if tier == Tier::Thorough {
        for td in TEARDOWNS.iter() {
            for sh in ["asc", "desc", "zigzag"] {
                for st in STACKS {
                    g.push(base("tree", st, 3_000_000, sh, td));
                    g.push(base("set", st, 1_500_000, sh, td));
                }
            }
        }
        for (teeth, op, stack) in [(250_000u64, "difference", 8u64 << 20), (250_000, "intersection", 2 << 20), (400_000, "intersection", 8 << 20)] {
            let mut w = base("boolean", stack, teeth, "asc", "drop");
            w.op = op.into();
            g.push(w);
        }
    }
    g
}

pub fn grid_len(tier: Tier) -> u64 {
    grid(tier).len() as u64
}

// ------------------------------------------------------------------ child side

thread_local! {
    static LOW: Cell<usize> = const { Cell::new(usize::MAX) };
    static BASE: Cell<usize> = const { Cell::new(0) };
    static BUDGET: Cell<usize> = const { Cell::new(usize::MAX) };
}

#[inline(never)]
fn probe() {
    let x = 0u8;
    let a = std::hint::black_box(&x) as *const u8 as usize;
    LOW.with(|l| {
        if a < l.get() {
            l.set(a);
            let depth = BASE.with(|b| b.get()).saturating_sub(a);
            if depth + GUARD > BUDGET.with(|b| b.get()) {
                // about to exhaust the simulated budget: report deterministically instead of crashing
                println!("marker probe depth {} within guard band of budget", depth);
                let _ = std::io::stdout().flush();
                std::process::exit(3);
            }
        }
    });
}
fn depth() -> usize {
    BASE.with(|b| b.get()).saturating_sub(LOW.with(|l| l.get()).min(BASE.with(|b| b.get())))
}

struct PK(u64);
impl Drop for PK {
    fn drop(&mut self) {
        probe();
    }
}
fn pk_cmp(a: &PK, b: &PK) -> Ordering {
    probe();
    a.0.cmp(&b.0)
}

fn marker(s: &str) {
    println!("marker {}", s);
    let _ = std::io::stdout().flush();
}

fn key_order(w: &C18World) -> Vec<u64> {
    let n = w.n;
    match w.shape.as_str() {
        "asc" => (0..n).collect(),
        "desc" => (0..n).rev().collect(),
        "zigzag" => (0..n).map(|i| if i % 2 == 0 { i / 2 } else { n - 1 - i / 2 }).collect(),
        "blocks" => {
            // descending blocks of ascending runs
            let b = 1000.min(n.max(1));
            let mut v = Vec::with_capacity(n as usize);
            let mut hi = n;
            while hi > 0 {
                let lo = hi.saturating_sub(b);
                v.extend(lo..hi);
                hi = lo;
            }
            v
        }
        _ => {
            let mut v: Vec<u64> = (0..n).collect();
            Rng::stream(w.shape_seed, "shape").shuffle(&mut v);
            v
        }
    }
}

trait Cont {
    fn ins(&mut self, k: u64);
    fn ext(&mut self, ks: &mut dyn Iterator<Item = u64>);
    fn has(&self, k: u64) -> bool;
    /// value/key lookups other than `contains`: mode 0 `get`, 1 `get_mut`, 2 `Index`, 3 `find_key` (set: `find` for all)
    fn look(&mut self, k: u64, mode: u8) -> u64;
    fn succ(&self, k: u64) -> Option<u64>;
    fn pred(&self, k: u64) -> Option<u64>;
    fn lo(&self) -> Option<u64>;
    fn hi(&self) -> Option<u64>;
    fn rem(&mut self, k: u64) -> bool;
    fn clr(&mut self);
    fn size(&self) -> usize;
    /// consume `take` items (pattern: 0 fwd, 1 back, 2 alternate for the first 32 items: each change of
    /// direction costs a full spine rotation on a chain, so unbounded alternation is quadratic), then drop the
    /// iterator; returns items seen
    fn consume(self, take: u64, pattern: u8) -> u64;
}
type T = SplayTree<PK, u32, fn(&PK, &PK) -> Ordering>;
type S = SplaySet<PK, fn(&PK, &PK) -> Ordering>;
impl Cont for T {
    fn ins(&mut self, k: u64) {
        self.insert(PK(k), k as u32);
    }
    fn ext(&mut self, ks: &mut dyn Iterator<Item = u64>) {
        self.extend(ks.map(|k| (PK(k), k as u32)));
    }
    fn look(&mut self, k: u64, mode: u8) -> u64 {
        match mode {
            0 => self.get(&PK(k)).map(|v| *v as u64).unwrap_or(0),
            1 => self.get_mut(&PK(k)).map(|v| { *v ^= 1; *v as u64 }).unwrap_or(0),
            2 => self[&PK(k)] as u64,
            _ => self.find_key(&PK(k)).map(|x| x.0).unwrap_or(0),
        }
    }
    fn has(&self, k: u64) -> bool {
        self.contains(&PK(k))
    }
    fn succ(&self, k: u64) -> Option<u64> {
        self.next(&PK(k)).map(|x| x.0 .0)
    }
    fn pred(&self, k: u64) -> Option<u64> {
        self.prev(&PK(k)).map(|x| x.0 .0)
    }
    fn lo(&self) -> Option<u64> {
        self.min().map(|k| k.0)
    }
    fn hi(&self) -> Option<u64> {
        self.max().map(|k| k.0)
    }
    fn rem(&mut self, k: u64) -> bool {
        self.remove(&PK(k)).is_some()
    }
    fn clr(&mut self) {
        self.clear()
    }
    fn size(&self) -> usize {
        self.len()
    }
    fn consume(self, take: u64, pattern: u8) -> u64 {
        let mut it = self.into_iter();
        let mut seen = 0;
        while seen < take {
            let back = pattern == 1 || (pattern == 2 && seen < 32 && seen % 2 == 1);
            let x = if back { it.next_back() } else { it.next() };
            if x.is_none() {
                break;
            }
            seen += 1;
        }
        drop(it);
        seen
    }
}
impl Cont for S {
    fn ins(&mut self, k: u64) {
        self.insert(PK(k));
    }
    fn ext(&mut self, ks: &mut dyn Iterator<Item = u64>) {
        self.extend(ks.map(PK));
    }
    fn look(&mut self, k: u64, _mode: u8) -> u64 {
        self.find(&PK(k)).map(|x| x.0).unwrap_or(0)
    }
    fn has(&self, k: u64) -> bool {
        self.contains(&PK(k))
    }
    fn succ(&self, k: u64) -> Option<u64> {
        self.next(&PK(k)).map(|x| x.0)
    }
    fn pred(&self, k: u64) -> Option<u64> {
        self.prev(&PK(k)).map(|x| x.0)
    }
    fn lo(&self) -> Option<u64> {
        self.min().map(|k| k.0)
    }
    fn hi(&self) -> Option<u64> {
        self.max().map(|k| k.0)
    }
    fn rem(&mut self, k: u64) -> bool {
        self.remove(&PK(k))
    }
    fn clr(&mut self) {
        self.clear()
    }
    fn size(&self) -> usize {
        self.len()
    }
    fn consume(self, take: u64, pattern: u8) -> u64 {
        let mut it = self.into_iter();
        let mut seen = 0;
        while seen < take {
            let back = pattern == 1 || (pattern == 2 && seen < 32 && seen % 2 == 1);
            let x = if back { it.next_back() } else { it.next() };
            if x.is_none() {
                break;
            }
            seen += 1;
        }
        drop(it);
        seen
    }
}

fn tree_scenario<C: Cont>(w: &C18World, mut c: C) {
    let order = key_order(w);
    marker("build");
    // even keys only, so that odd keys are absent neighbours for queries
    match w.build.as_str() {
        "extend" => c.ext(&mut order.iter().map(|k| k * 2)),
        "extend_batches" => {
            let mut br = Rng::stream(w.shape_seed, "batches");
            let mut i = 0usize;
            while i < order.len() {
                let j = (i + 1 + br.below(4096) as usize).min(order.len());
                c.ext(&mut order[i..j].iter().map(|k| k * 2));
                i = j;
            }
        }
        _ => {
            for k in &order {
                c.ins(k * 2);
            }
        }
    }
    marker(&format!("built len={} depth={}", c.size(), depth()));
    let n = w.n;
    let mut r = Rng::stream(w.shape_seed, "post");
    let mut acc = 0u64;
    let top = 2 * (n.max(1) - 1);
    match w.first.as_str() {
        "remove_min" => acc += c.rem(0) as u64,
        "remove_max" => acc += c.rem(top) as u64,
        "next_min" => acc += c.succ(0).unwrap_or(0),
        "prev_max" => acc += c.pred(top).unwrap_or(0),
        "contains_min" => acc += c.has(0) as u64,
        "contains_max" => acc += c.has(top) as u64,
        "get_min" => acc += c.look(0, 0),
        "get_max" => acc += c.look(top, 0),
        "getmut_min" => acc += c.look(0, 1),
        "getmut_max" => acc += c.look(top, 1),
        "index_min" => acc += c.look(0, 2),
        "index_max" => acc += c.look(top, 2),
        "find_min" => acc += c.look(0, 3),
        "find_max" => acc += c.look(top, 3),
        "min" => acc += c.lo().unwrap_or(0),
        "max" => acc += c.hi().unwrap_or(0),
        _ => {}
    }
    marker(&format!("first {} depth={}", w.first, depth()));
    // queries on the shape
    acc += c.lo().unwrap_or(0) + c.hi().unwrap_or(0);
    for _ in 0..16 {
        let k = r.below(2 * n.max(1));
        acc += c.has(k) as u64 + c.succ(k).unwrap_or(0) + c.pred(k).unwrap_or(0);
    }
    marker(&format!("queried depth={}", depth()));
    match w.post.as_str() {
        "lookups" => {
            for _ in 0..w.post_count {
                let k = r.below(2 * n.max(1));
                acc += c.has(k) as u64 + c.succ(k).unwrap_or(0);
            }
        }
        "removals" => {
            for _ in 0..w.post_count {
                acc += c.rem(2 * r.below(n.max(1))) as u64;
            }
        }
        _ => {}
    }
    marker(&format!("teardown {} acc={} depth={}", w.teardown, acc % 7, depth()));
    match w.teardown.as_str() {
        "drop" => drop(c),
        "clear" => {
            c.clr();
            drop(c)
        }
        "consume_fwd" => {
            c.consume(u64::MAX, 0);
        }
        "consume_back" => {
            c.consume(u64::MAX, 1);
        }
        "consume_mixed" => {
            c.consume(u64::MAX, 2);
        }
        "partial_fwd" => {
            c.consume(w.partial, 0);
        }
        "partial_back" => {
            c.consume(w.partial, 1);
        }
        _ => {
            // extend with a second monotone batch, then drop
            c.ext(&mut (0..n / 2).map(|k| 2 * (n + k)));
            drop(c)
        }
    }
}

pub fn comb(teeth: u64) -> Polygon<f64> {
    let mut pts: Vec<Coord<f64>> = Vec::with_capacity(4 * teeth as usize + 3);
    pts.push(Coord { x: 0.0, y: 0.0 });
    for i in 0..teeth {
        let y = (2 * i) as f64;
        pts.push(Coord { x: 1.0, y });
        pts.push(Coord { x: 10.0, y });
        pts.push(Coord { x: 10.0, y: y + 1.0 });
        pts.push(Coord { x: 1.0, y: y + 1.0 });
    }
    pts.push(Coord { x: 0.0, y: (2 * teeth - 1) as f64 });
    pts.push(Coord { x: 0.0, y: 0.0 });
    Polygon::new(LineString(pts), vec![])
}

/// `n` rectangles in a staircase going down and to the right: the sweep line is filled top-down (every new
/// segment below all earlier ones: a chain leaning the other way) and the topmost segments leave first, so
/// removals and neighbour queries inside a real operation hit the far end of the chain. No early stop (union/xor).
fn stairs_scenario(w: &C18World) {
    let n = w.n;
    let polys: Vec<Polygon<f64>> = (0..n).map(|i| {
        let (x0, x1, y1) = (i as f64, (2 * n + i) as f64, -2.0 * i as f64);
        let y0 = y1 - 1.0;
        Polygon::new(LineString(vec![Coord { x: x0, y: y0 }, Coord { x: x1, y: y0 }, Coord { x: x1, y: y1 }, Coord { x: x0, y: y1 }, Coord { x: x0, y: y0 }]), vec![])
    }).collect();
    let a = MultiPolygon(polys);
    // a detached square inside the staircase's bounding box (so the bounding-box shortcut is not taken)
    let bx = (2 * n + n / 2) as f64;
    let b = MultiPolygon(vec![Polygon::new(LineString(vec![
        Coord { x: bx, y: -1.75 }, Coord { x: bx + 0.25, y: -1.75 }, Coord { x: bx + 0.25, y: -1.25 }, Coord { x: bx, y: -1.25 }, Coord { x: bx, y: -1.75 }]), vec![])]);
    marker(&format!("boolean stairs {} rects={} edges={}", w.op, n, 4 * n + 4));
    let r = if w.op == "xor" { a.xor(&b) } else { a.union(&b) };
    marker(&format!("returned polygons={}", r.0.len()));
}

fn square(cx: f64, cy: f64, h: f64) -> LineString<f64> {
    LineString(vec![Coord { x: cx - h, y: cy - h }, Coord { x: cx + h, y: cy - h }, Coord { x: cx + h, y: cy + h }, Coord { x: cx - h, y: cy + h }, Coord { x: cx - h, y: cy - h }])
}

/// `n` concentric square rings (n/2 nested annuli): contours nested n deep, a sweep line that fills from the
/// outside inwards (zig-zag insertion order). union/xor: full sweep; intersection/difference with a box over the
/// left half: the sweep stops early at the centre with all 2n horizontal segments live.
fn nested_scenario(w: &C18World) {
    let n = w.n.max(2);
    let mut polys = Vec::new();
    let mut i = 0;
    while i + 1 < n {
        let (outer, inner) = ((n - i) as f64, (n - i - 1) as f64);
        polys.push(Polygon::new(square(0.0, 0.0, outer + 0.25), vec![square(0.0, 0.0, inner + 0.75)]));
        i += 2;
    }
    let a = MultiPolygon(polys);
    marker(&format!("boolean nested {} rings={} edges={}", w.op, n, 4 * n));
    let big = (n + 2) as f64;
    let half = Polygon::new(LineString(vec![Coord { x: -big, y: -big }, Coord { x: 0.0, y: -big }, Coord { x: 0.0, y: big }, Coord { x: -big, y: big }, Coord { x: -big, y: -big }]), vec![]);
    let dot = Polygon::new(square(0.0, 0.0, 0.125), vec![]);
    let r = match w.op.as_str() {
        "intersection" => a.intersection(&half),
        "difference" => half.difference(&a),
        // a small polygon inside the innermost ring: the whole nest lies below the only result contour
        "intersection_dot" => a.intersection(&dot),
        "difference_dot" => dot.difference(&a),
        "xor" => a.xor(&dot),
        _ => a.union(&dot),
    };
    marker(&format!("returned polygons={}", r.0.len()));
}

/// `n` tiny separate squares on a grid (many parts, many contours, shallow sweep line), combined with a shifted copy.
fn grid_scenario(w: &C18World) {
    let n = w.n.max(1);
    let side = (n as f64).sqrt().ceil() as u64;
    let mk = |dx: f64| MultiPolygon((0..n).map(|k| Polygon::new(square(3.0 * (k % side) as f64 + dx, 3.0 * (k / side) as f64 + dx, 1.0), vec![])).collect::<Vec<_>>());
    let (a, mut b) = (mk(0.0), mk(0.5));
    // one more part that shares a piece of a vertical edge with the first square of `a` (events that leave the sweep
    // out of order)
    b.0.push(Polygon::new(LineString(vec![Coord { x: -3.0, y: -0.5 }, Coord { x: -1.0, y: -0.5 }, Coord { x: -1.0, y: 1.5 }, Coord { x: -3.0, y: 1.5 }, Coord { x: -3.0, y: -0.5 }]), vec![]));
    marker(&format!("boolean grid {} parts={} edges={}", w.op, n, 8 * n + 4));
    let r = match w.op.as_str() {
        "intersection" => a.intersection(&b),
        "difference" => a.difference(&b),
        "xor" => a.xor(&b),
        _ => a.union(&b),
    };
    marker(&format!("returned polygons={}", r.0.len()));
}

/// Sieve: one polygon with `n` square holes on a grid (a single polygon with 10^5 interior rings, every hole a
/// contour of depth 1 with the same parent), combined with a box that covers the left half of it and cuts through a
/// column of holes.
fn sieve_scenario(w: &C18World) {
    let n = w.n.max(1);
    let side = (n as f64).sqrt().ceil() as u64;
    let ext = 3.0 * side as f64 + 1.0;
    let holes = (0..n).map(|k| square(3.0 * (k % side) as f64 + 1.5, 3.0 * (k / side) as f64 + 1.5, 1.0)).collect::<Vec<_>>();
    let a = MultiPolygon(vec![Polygon::new(LineString(vec![Coord { x: -1.0, y: -1.0 }, Coord { x: ext, y: -1.0 }, Coord { x: ext, y: ext }, Coord { x: -1.0, y: ext }, Coord { x: -1.0, y: -1.0 }]), holes)]);
    let half = 3.0 * (side / 2) as f64 + 1.5;
    let b = MultiPolygon(vec![Polygon::new(LineString(vec![Coord { x: -2.0, y: -2.0 }, Coord { x: half, y: -2.0 }, Coord { x: half, y: ext + 1.0 }, Coord { x: -2.0, y: ext + 1.0 }, Coord { x: -2.0, y: -2.0 }]), vec![])]);
    marker(&format!("boolean sieve {} holes={} edges={}", w.op, n, 4 * n + 8));
    let r = match w.op.as_str() {
        "intersection" => a.intersection(&b),
        "difference" => a.difference(&b),
        "xor" => a.xor(&b),
        _ => a.union(&b),
    };
    marker(&format!("returned polygons={} holes={}", r.0.len(), r.0.iter().map(|p| p.interiors().len()).sum::<usize>()));
}

/// Bow tie: `n` thin blades on the left and three on the right, all meeting in one vertex and nowhere else
/// (parts touching in a point are valid). Tens of thousands of result edges share that vertex.
fn fan_scenario(w: &C18World) {
    let n = w.n.max(1);
    // the many blades open to the left of the common vertex; "union_right": to the right (mirrored; the vertex search of the
    // ring assembly is quadratic in the vertex degree there, so this variant is kept small)
    let flip = if w.op == "union_right" { -1.0 } else { 1.0 };
    let blade = |side: f64, i: u64| {
        let side = side * flip;
        let y = 2.0 * i as f64 - n as f64;
        Polygon::new(LineString(vec![Coord { x: 0.0, y: 0.0 }, Coord { x: side * 1024.0, y }, Coord { x: side * 1024.0, y: y + 1.0 }, Coord { x: 0.0, y: 0.0 }]), vec![])
    };
    let a = MultiPolygon((0..n).map(|i| blade(-1.0, i)).collect::<Vec<_>>());
    let b = MultiPolygon((0..3).map(|i| blade(1.0, n / 2 + 3 * i)).collect::<Vec<_>>());
    marker(&format!("boolean fan {} blades={} edges={}", w.op, n, 3 * n + 9));
    let r = match w.op.as_str() {
        "xor" => a.xor(&b),
        "difference" => a.difference(&b),
        _ => a.union(&b),
    };
    marker(&format!("returned polygons={}", r.0.len()));
}

/// A box, `n` disjoint unit squares in a row beside it, and a small box that touches the big one along a part of
/// its vertical edge (the shape of the repository's `touching_boxes` fixture): a result with many parts whose events
/// leave the sweep slightly out of order.
fn row_scenario(w: &C18World) {
    let n = w.n.max(1);
    let sq = |x0: f64, y0: f64, x1: f64, y1: f64| Polygon::new(LineString(vec![Coord { x: x0, y: y0 }, Coord { x: x1, y: y0 }, Coord { x: x1, y: y1 }, Coord { x: x0, y: y1 }, Coord { x: x0, y: y0 }]), vec![]);
    let mut parts = vec![sq(0.0, 0.0, 3.0, 3.0)];
    parts.extend((0..n).map(|k| sq(10.0 + 2.0 * k as f64, 0.0, 11.0 + 2.0 * k as f64, 1.0)));
    let a = MultiPolygon(parts);
    let b = MultiPolygon(vec![sq(3.0, 1.0, 4.0, 2.0)]);
    marker(&format!("boolean row {} parts={} edges={}", w.op, n, 4 * n + 8));
    let r = match w.op.as_str() {
        "xor" => a.xor(&b),
        "difference" => a.difference(&b),
        _ => a.union(&b),
    };
    marker(&format!("returned polygons={}", r.0.len()));
}

/// Comb with vertical teeth (the comb transposed) against a flat box whose top edge crosses every tooth: one long
/// horizontal segment is split 2*teeth times, piece by piece, while the sweep line itself stays shallow.
fn hcomb_scenario(w: &C18World) {
    let teeth = w.n.max(1);
    let c = comb(teeth);
    let t = Polygon::new(LineString(c.exterior().0.iter().map(|p| Coord { x: p.y, y: p.x }).collect::<Vec<_>>()), vec![]);
    let right = (2 * teeth) as f64;
    let flat = Polygon::new(LineString(vec![Coord { x: -1.0, y: -1.0 }, Coord { x: right, y: -1.0 }, Coord { x: right, y: 5.0 }, Coord { x: -1.0, y: 5.0 }, Coord { x: -1.0, y: -1.0 }]), vec![]);
    marker(&format!("boolean hcomb {} teeth={} edges={}", w.op, teeth, 4 * teeth + 2));
    let r: MultiPolygon<f64> = match w.op.as_str() {
        "xor" => t.xor(&flat),
        "difference" => flat.difference(&t),
        "intersection" => t.intersection(&flat),
        _ => t.union(&flat),
    };
    marker(&format!("returned polygons={}", r.0.len()));
}

/// A long flat box and `n` unit squares of the other operand hanging below it, each sharing a piece of the box's
/// bottom edge: one long segment is split by `n` collinear overlapping partners (the overlap branch of the
/// intersection step), full sweep.
fn overlap_scenario(w: &C18World) {
    let n = w.n.max(1);
    let sq = |x0: f64, y0: f64, x1: f64, y1: f64| Polygon::new(LineString(vec![Coord { x: x0, y: y0 }, Coord { x: x1, y: y0 }, Coord { x: x1, y: y1 }, Coord { x: x0, y: y1 }, Coord { x: x0, y: y0 }]), vec![]);
    let a = MultiPolygon(vec![sq(0.0, 0.0, 2.0 * n as f64 + 1.0, 1.0)]);
    let b = MultiPolygon((0..n).map(|k| sq(1.0 + 2.0 * k as f64, -1.0, 2.0 + 2.0 * k as f64, 0.0)).collect::<Vec<_>>());
    marker(&format!("boolean overlap {} squares={} edges={}", w.op, n, 4 * n + 4));
    let r = match w.op.as_str() {
        "xor" => a.xor(&b),
        "difference" => a.difference(&b),
        "intersection" => a.intersection(&b),
        _ => a.union(&b),
    };
    marker(&format!("returned polygons={}", r.0.len()));
}

fn boolean_scenario(w: &C18World) {
    let teeth = w.n;
    let c = comb(teeth);
    let top = (2 * teeth) as f64;
    let rect = Polygon::new(
        LineString(vec![
            Coord { x: -1.0, y: -1.0 }, Coord { x: 5.0, y: -1.0 }, Coord { x: 5.0, y: top }, Coord { x: -1.0, y: top }, Coord { x: -1.0, y: -1.0 },
        ]),
        vec![],
    );
    marker(&format!("boolean {} teeth={} edges={}", w.op, teeth, 4 * teeth + 2));
    let r: MultiPolygon<f64> = if w.op == "difference" {
        // subject = rect: the sweep stops right of the subject's box with every tooth still on the sweep line
        rect.difference(&c)
    } else {
        c.intersection(&rect)
    };
    marker(&format!("returned polygons={}", r.0.len()));
}

/// `sim stack-child <json>`: run one scenario on a thread with the simulated stack budget.
pub fn child_main(arg: &str) -> i32 {
    let v: Value = match serde_json::from_str(arg) {
        Ok(v) => v,
        Err(_) => return 2,
    };
    let w = match C18World::from_json(&v) {
        Ok(w) => w,
        Err(_) => return 2,
    };
    let stack = w.stack_bytes as usize;
    let h = std::thread::Builder::new().stack_size(stack).spawn(move || {
        let base = 0u8;
        BASE.with(|b| b.set(&base as *const u8 as usize));
        BUDGET.with(|b| b.set(stack));
        match w.kind.as_str() {
            "tree" => tree_scenario(&w, T::new(pk_cmp as fn(&PK, &PK) -> Ordering)),
            "set" => tree_scenario(&w, S::new(pk_cmp as fn(&PK, &PK) -> Ordering)),
            "boolean_stairs" => stairs_scenario(&w),
            "boolean_nested" => nested_scenario(&w),
            "boolean_grid" => grid_scenario(&w),
            "boolean_fan" => fan_scenario(&w),
            "boolean_row" => row_scenario(&w),
            "boolean_hcomb" => hcomb_scenario(&w),
            "boolean_sieve" => sieve_scenario(&w),
            "boolean_overlap" => overlap_scenario(&w),
            _ => boolean_scenario(&w),
        }
        depth()
    });
    match h.map(|h| h.join()) {
        Ok(Ok(d)) => {
            println!("ok depth={}", d);
            0
        }
        Ok(Err(_)) => {
            println!("marker panicked");
            101
        }
        Err(_) => 2,
    }
}

// ------------------------------------------------------------------ parent side

impl World for C18World {
    const PROP: &'static str = "C18";
    const MINIMISE_SECS: f64 = 25.0;
    const MAX_VIOLATIONS_PER_WORKER: usize = 1;

    fn generate(seed: u64, index: u64, tier: Tier) -> Self {
        // the first run indices are the fixed full-scale grid (complete for every seed), the rest are seeded
        if let Some(w) = grid(tier).into_iter().nth(index as usize) {
            return w;
        }
        let mut r = Rng::stream(seed, "workload");
        let big = if tier == Tier::Thorough { 3_000_000 } else { 1_500_000 };
        let kind = *r.pick(&["tree", "set", "tree", "set", "tree", "set", "tree", "set", "boolean", "boolean_stairs", "boolean_nested", "boolean_grid", "boolean_fan", "boolean_row", "boolean_hcomb", "boolean_overlap", "boolean_sieve"]);
        let profile = if r.chance(1, 3) { "debug" } else { "release" };
        // sizes log-uniform over 10^3 .. big (thresholds can sit anywhere), smaller caps for unoptimised children
        let logu = |r: &mut Rng, lo: f64, hi: f64| (10f64).powf(lo + (hi - lo) * (r.below(1 << 20) as f64 / (1u64 << 20) as f64)) as u64;
        let cap = if profile == "debug" { 1_000_000f64 } else { big as f64 + 100_000.0 };
        let n = if kind.starts_with("boolean") { logu(&mut r, 3.0, if profile == "debug" { 4.7 } else { 5.2 }) } else { logu(&mut r, 3.0, cap.log10()) };
        let mut fr = Rng::stream(seed, "faults");
        C18World {
            kind: kind.into(),
            stack_bytes: *fr.pick(&STACKS),
            n,
            shape: (*r.pick(&SHAPES)).into(),
            shape_seed: r.next() >> 1,
            post: (*r.pick(&["none", "none", "lookups", "removals"])).into(),
            post_count: 1 + r.below(2000),
            teardown: (*r.pick(&TEARDOWNS)).into(),
            partial: if r.chance(1, 2) { r.below(n + 1) } else { n - logu(&mut r, 0.0, (n.max(2) as f64).log10()).min(n) },
            op: match kind {
                "boolean_stairs" => (*r.pick(&["union", "xor"])).into(),
                "boolean_nested" => (*r.pick(&["union", "xor", "intersection", "difference", "intersection_dot", "difference_dot"])).into(),
                "boolean_grid" => (*r.pick(&["union", "xor", "intersection", "difference"])).into(),
                "boolean_fan" | "boolean_row" => (*r.pick(&["union", "xor", "difference"])).into(),
                "boolean_hcomb" | "boolean_overlap" | "boolean_sieve" => (*r.pick(&["union", "xor", "difference", "intersection"])).into(),
                _ => (*r.pick(&["intersection", "difference"])).into(),
            },
            first: (*r.pick(&FIRSTS)).into(),
            profile: profile.into(),
            build: (*r.pick(&["insert", "insert", "extend", "extend_batches"])).into(),
        }
    }

    fn to_json(&self) -> Value {
        json!({"kind": self.kind, "stack_bytes": self.stack_bytes, "n": self.n, "shape": self.shape, "shape_seed": self.shape_seed,
            "post": self.post, "post_count": self.post_count, "teardown": self.teardown, "partial": self.partial, "op": self.op, "first": self.first, "profile": self.profile, "build": self.build})
    }

    fn from_json(v: &Value) -> Result<Self, String> {
        let s = |k: &str| v[k].as_str().map(|x| x.to_string()).ok_or_else(|| format!("field {}", k));
        let u = |k: &str| v[k].as_u64().ok_or_else(|| format!("field {}", k));
        Ok(C18World {
            kind: s("kind")?, stack_bytes: u("stack_bytes")?, n: u("n")?, shape: s("shape")?, shape_seed: u("shape_seed")?,
            post: s("post")?, post_count: u("post_count")?, teardown: s("teardown")?, partial: u("partial")?, op: s("op")?,
            first: v["first"].as_str().unwrap_or("none").to_string(),
            profile: v["profile"].as_str().unwrap_or("release").to_string(),
            build: v["build"].as_str().unwrap_or("insert").to_string(),
        })
    }

    fn run(&self, st: &mut Stats) -> Verdict {
        let mut exe = std::env::current_exe().expect("current_exe");
        if self.profile == "debug" {
            // sibling build of the same sources with opt-level 0 (target/stackdbg/sim)
            let dbg = exe.parent().and_then(|p| p.parent()).map(|p| p.join("stackdbg").join("sim"));
            match dbg {
                Some(d) if d.exists() => exe = d,
                _ => {
                    st.inc("harness_debug_profile_child_missing");
                }
            }
        }
        st.inc(&format!("profile_{}", self.profile));
        if !self.kind.starts_with("boolean") {
            st.inc(&format!("build_{}", self.build));
            st.inc(&format!("first_{}", self.first));
        }
        // a scenario normally takes seconds; one that runs for minutes (a change that made something quadratic) is
        // stopped and noted — slowness is not what C18 is about
        let out = Command::new(exe)
            .arg("stack-child")
            .arg(self.to_json().to_string())
            .stdin(Stdio::null())
            .stdout(Stdio::piped())
            .stderr(Stdio::null())
            .spawn()
            .and_then(|mut ch| {
                let t0 = std::time::Instant::now();
                loop {
                    if ch.try_wait()?.is_some() {
                        break;
                    }
                    if t0.elapsed().as_secs() > CHILD_TIMEOUT_S {
                        let _ = ch.kill();
                        st.inc("observed_children_stopped_after_timeout");
                        break;
                    }
                    std::thread::sleep(std::time::Duration::from_millis(15));
                }
                ch.wait_with_output()
            });
        let mut h = LogHash::new();
        let out = match out {
            Ok(o) => o,
            Err(e) => {
                st.notes.insert(format!("could not spawn child: {}", e));
                return Verdict { violation: None, log_hash: 0 };
            }
        };
        let text = String::from_utf8_lossy(&out.stdout).to_string();
        let last = text.lines().last().unwrap_or("").to_string();
        let last_marker = text.lines().rev().find(|l| l.starts_with("marker ")).unwrap_or("marker (none)").to_string();
        st.inc("child_processes");
        st.inc(&format!("stack_budget_{}MiB", self.stack_bytes >> 20));
        st.inc(&format!("kind_{}", self.kind));
        if !self.kind.starts_with("boolean") {
            st.inc(&format!("teardown_{}", self.teardown));
            st.add("keys_inserted", self.n);
            if self.teardown.starts_with("partial") {
                st.inc("fault_cancelled_consumption");
            }
        } else {
            st.add("boolean_input_edges", if self.kind == "boolean_grid" { 8 * self.n } else { 4 * self.n + 2 });
        }
        let mut dh = LogHash::new();
        dh.add_bytes(format!("{}/{}/{}/{}/{}/{}/{}/{}", self.kind, self.shape, self.teardown, self.stack_bytes, self.post, self.first, self.profile, (self.n as f64).log10().floor()).as_bytes());
        st.distinct.insert(dh.0);
        let violation = if out.status.signal() == Some(9) {
            st.notes.insert("a scenario was stopped after the time limit (not a stack finding)".into());
            None
        } else if let Some(sig) = out.status.signal() {
            st.inc("children_killed_by_signal");
            Some(Violation {
                class: "stack_exhausted".into(),
                detail: format!("child killed by signal {} ({}) after '{}'", sig,
                    match sig { 11 => "SIGSEGV", 6 => "SIGABRT", 7 => "SIGBUS", _ => "?" }, last_marker),
            })
        } else {
            match out.status.code() {
                Some(0) if last.starts_with("ok depth=") => {
                    let d: u64 = last[9..].trim().parse().unwrap_or(0);
                    st.max("max_probe_stack_depth_bytes", d);
                    h.add(d);
                    None
                }
                Some(3) => Some(Violation { class: "stack_exhausted".into(), detail: format!("stack probe reached the guard band: '{}'", last_marker) }),
                Some(101) => Some(Violation { class: "panic".into(), detail: format!("scenario panicked after '{}'", last_marker) }),
                c => {
                    st.notes.insert(format!("child exit code {:?} (harness trouble, not counted as violation)", c));
                    None
                }
            }
        };
        let me = self;
        st.sample(3, || me.to_json());
        h.add_bytes(last_marker.as_bytes());
        h.add(out.status.code().unwrap_or(-1) as u64);
        h.add(out.status.signal().unwrap_or(0) as u64);
        Verdict { violation, log_hash: h.0 }
    }

    fn shrink(&self) -> Vec<Self> {
        let mut out = Vec::new();
        let mut push = |f: &dyn Fn(&mut C18World)| {
            let mut w = self.clone();
            f(&mut w);
            if w != *self {
                out.push(w);
            }
        };
        push(&|w| { w.post = "none".into(); w.post_count = 0 });
        push(&|w| w.shape = "asc".into());
        push(&|w| w.first = "none".into());
        push(&|w| w.build = "insert".into());
        push(&|w| w.profile = "release".into());
        push(&|w| if !w.kind.starts_with("boolean") { w.teardown = "drop".into() });
        push(&|w| if w.kind == "set" { w.kind = "tree".into() });
        push(&|w| { w.n = (w.n / 2).max(1); w.partial = w.partial.min(w.n) });
        push(&|w| { w.n = (w.n * 3 / 4).max(1); w.partial = w.partial.min(w.n) });
        push(&|w| { w.n = (w.n * 9 / 10).max(1); w.partial = w.partial.min(w.n) });
        push(&|w| w.partial /= 2);
        out
    }

    fn signature(&self) -> String {
        format!("c18:{}:{}:{}:{}:{}:{}:{}", self.kind, self.shape, if self.kind.starts_with("boolean") { &self.op } else { &self.teardown }, self.first, self.profile, self.stack_bytes >> 20, self.build)
    }
}

