//! C12 — purity and determinism under simulated clients, schedules, heaps, hash keys and
//! cancellation. Reference model of a pure function: the same call evaluated in isolation.

use crate::batch::{Stats, Tier, Verdict, Violation, World};
use crate::c09::{OPS, OP_NAMES, PAIRINGS};
use crate::geom::{self, Operand};
use crate::heap::{self, Policy, FILLS, PLACES};
use crate::rng::{LogHash, Rng};
use crate::sched::{Mode, Sched};
use crate::simhooks::{self, Outcome};
use geo_booleanop::boolean::{BooleanOp, Operation};
use geo_types::MultiPolygon;
use serde_json::{json, Value};
use std::rc::Rc;
use std::sync::atomic::{AtomicBool, Ordering::SeqCst};
use std::sync::{Arc, Mutex};
use std::time::Duration;

pub struct Built {
    pub op: Operand,
    pub mp64: MultiPolygon<f64>,
    pub mp32: Option<MultiPolygon<f32>>,
    deep64: Vec<u64>,
    deep32: Vec<u64>,
}
impl Built {
    pub fn new(op: Operand) -> Built {
        let mp64 = geom::to_mp64(&op);
        let mp32 = if geom::fits_f32(&op) { Some(geom::to_mp32(&op)) } else { None };
        let deep64 = geom::deep_image(&mp64);
        let deep32 = mp32.as_ref().map(geom::deep_image).unwrap_or_default();
        Built { op, mp64, mp32, deep64, deep32 }
    }
    pub fn intact(&self) -> bool {
        geom::deep_image(&self.mp64) == self.deep64 && self.mp32.as_ref().map(geom::deep_image).unwrap_or_default() == self.deep32
    }
}

#[derive(Clone, Copy, Debug, PartialEq)]
pub enum Src {
    Pool(u32),
    /// the j-th result this client saved earlier (falls back to the pool when there is none)
    Saved(u32),
}

#[derive(Clone, Debug, PartialEq)]
pub struct Step {
    pub retire: bool,
    pub op: u8,
    pub lhs: Src,
    pub rhs: Src,
    pub pairing: u8,
    pub f32_: bool,
    pub heap: u32,
    pub clone_ops: bool,
    /// 0 = none; otherwise cancelled at event 1 + (cancel-1) mod (events of the reference run)
    pub cancel: u64,
    pub save: bool,
    /// the same call this many times back to back (long same-thread histories: wrapping counters, growing caches)
    pub repeat: u32,
}

#[derive(Debug)]
pub struct C12World {
    pub operands: Vec<Operand>,
    pub clients: Vec<Vec<Step>>,
    pub yield16: u64,
    pub sched_seed: u64,
    pub schedule: Option<Vec<u8>>,
    pub hash_seed: u64,
    pub heap_seed: u64,
    pub recorded: Mutex<Vec<u8>>,
}
impl Clone for C12World {
    fn clone(&self) -> Self {
        C12World {
            operands: self.operands.clone(), clients: self.clients.clone(), yield16: self.yield16, sched_seed: self.sched_seed,
            schedule: self.schedule.clone(), hash_seed: self.hash_seed, heap_seed: self.heap_seed, recorded: Mutex::new(Vec::new()),
        }
    }
}

fn resolve<'a>(s: Src, pool: &'a [Arc<Built>], saved: &'a [Arc<Built>]) -> &'a Arc<Built> {
    match s {
        Src::Saved(j) if !saved.is_empty() => &saved[j as usize % saved.len()],
        Src::Saved(j) | Src::Pool(j) => &pool[j as usize % pool.len()],
    }
}

/// The library call itself, on shared prebuilt operands (or on temporaries cloned from them).
fn call_built(l: &Built, r: &Built, op: Operation, pairing: u8, f32_: bool, clone_ops: bool, save: bool) -> (Vec<u64>, Option<Operand>) {
    macro_rules! go {
        ($ma:expr, $mb:expr) => {{
            let (ta, tb);
            let (ma, mb) = if clone_ops {
                ta = $ma.clone();
                tb = $mb.clone();
                (&ta, &tb)
            } else {
                ($ma, $mb)
            };
            let pa = (pairing == 1 || pairing == 2) && ma.0.len() == 1;
            let pb = (pairing == 1 || pairing == 3) && mb.0.len() == 1;
            let res = match (pa, pb) {
                (true, true) => ma.0[0].boolean(&mb.0[0], op),
                (true, false) => ma.0[0].boolean(mb, op),
                (false, true) => ma.boolean(&mb.0[0], op),
                (false, false) => ma.boolean(mb, op),
            };
            let mut out = heap::off(|| (geom::image(&res), if save { Some(geom::from_mp(&res)) } else { None }));
            drop(res);
            if fake_bug() {
                // self-test of detection and minimisation only (SIM_FAKE_BUG=c12): the third and later union on a thread
                // that has seen a difference before "remembers" it
                FAKE.with(|f| {
                    let (mut d, mut u) = f.get();
                    if op == Operation::Difference { d += 1; }
                    if op == Operation::Union { u += 1; if d > 0 && u >= 3 { out.0.push(0xBAD); } }
                    f.set((d, u));
                });
            }
            out
        }};
    }
    match (f32_, &l.mp32, &r.mp32) {
        (true, Some(a), Some(b)) => go!(a, b),
        _ => go!(&l.mp64, &r.mp64),
    }
}

thread_local! {
    static FAKE: std::cell::Cell<(u32, u32)> = const { std::cell::Cell::new((0, 0)) };
}
fn fake_bug() -> bool {
    static ON: std::sync::OnceLock<bool> = std::sync::OnceLock::new();
    *ON.get_or_init(|| std::env::var("SIM_FAKE_BUG").map(|v| v == "c12").unwrap_or(false))
}

struct Expect {
    outcome: Outcome<Vec<u64>>,
    cancel_k: u64,
    budget: u64,
}

struct Event {
    client: usize,
    step: usize,
    outcome_hash: u64,
    events: u64,
}

struct Shared {
    pool: Vec<Arc<Built>>,
    expects: Vec<Vec<Expect>>,
    scripts: Vec<Vec<Step>>,
    sched: Sched,
    history: Mutex<Vec<Event>>,
    violation: Mutex<Option<Violation>>,
    stop: AtomicBool,
    handles: Mutex<Vec<std::thread::JoinHandle<()>>>,
    tuples: Mutex<Vec<u64>>,
    counters: Mutex<std::collections::BTreeMap<&'static str, u64>>,
}
impl Shared {
    fn cnt(&self, k: &'static str) {
        *self.counters.lock().unwrap_or_else(|e| e.into_inner()).entry(k).or_insert(0) += 1;
    }
}

fn hash_outcome(o: &Outcome<Vec<u64>>) -> u64 {
    let mut h = LogHash::new();
    match o {
        Outcome::Ok(img) => {
            h.add(1);
            for w in img {
                h.add(*w);
            }
        }
        Outcome::Panic(m) => {
            h.add(2);
            h.add_bytes(m.as_bytes());
        }
        Outcome::Cancelled => h.add(3),
        Outcome::Budget => h.add(4),
    }
    h.0
}

fn describe(step: &Step, me: usize, i: usize) -> String {
    let src = |s: Src| match s {
        Src::Pool(j) => format!("operand#{}", j),
        Src::Saved(j) => format!("own result#{}", j),
    };
    format!("client {} step {}: {}({}, {}) [{}, {}] heap {}{}{}", me, i, OP_NAMES[step.op as usize], src(step.lhs), src(step.rhs),
        PAIRINGS[step.pairing as usize], if step.f32_ { "f32 if representable" } else { "f64" }, Policy::from_world(step.heap).name(),
        if step.clone_ops { ", temporaries cloned from the operands" } else { "" },
        if step.cancel > 0 { ", cancellation requested" } else { "" })
}

fn client_main(sh: Arc<Shared>, me: usize, start: usize, mut saved: Vec<Arc<Built>>, fresh_thread: bool) {
    sh.sched.wait_turn(me);
    let h = simhooks::handler();
    {
        let sh2 = sh.clone();
        if std::env::var("SIM_CALL_GRANULARITY").is_err() {
            *h.yielder.borrow_mut() = Some(Rc::new(move || sh2.sched.point(me, true)));
        }
    }
    h.no_shortcut.set(false);
    h.no_early.set(false);
    h.widen_source.set(false);
    let script = &sh.scripts[me];
    let mut first_on_thread = fresh_thread;
    let mut after_cancel = false;
    let mut i = start;
    while i < script.len() {
        if sh.stop.load(SeqCst) {
            break;
        }
        let step = &script[i];
        if step.retire {
            // this OS thread ends; a fresh one (fresh thread-locals, fresh hash keys) takes over, holding the baton
            let sh2 = sh.clone();
            let saved2 = std::mem::take(&mut saved);
            *h.yielder.borrow_mut() = None;
            let jh = std::thread::Builder::new().stack_size(4 << 20).spawn(move || client_main(sh2, me, i + 1, saved2, true));
            match jh {
                Ok(jh) => sh.handles.lock().unwrap_or_else(|e| e.into_inner()).push(jh),
                Err(_) => sh.sched.finish(me),
            }
            sh.cnt("fault_thread_retired");
            return;
        }
        sh.sched.point(me, false);
        if sh.stop.load(SeqCst) {
            break;
        }
        let ex = &sh.expects[me][i];
        let l = resolve(step.lhs, &sh.pool, &saved).clone();
        let r = resolve(step.rhs, &sh.pool, &saved).clone();
        let mut rep = 0;
        let mut stop_now = false;
        while rep < step.repeat.max(1) && !stop_now {
        rep += 1;
        if rep > 1 {
            sh.cnt("probe_back_to_back_repetition_of_a_call");
        }
        h.events.set(0);
        h.ticks.set(0);
        h.connect_steps.set(0);
        h.budget.set(ex.budget);
        h.cancel_at.set(ex.cancel_k);
        let pol = Policy::from_world(step.heap);
        let others = sh.sched.others_in_flight(me);
        sh.sched.set_in_flight(me, true);
        let out = heap::with_policy(pol, || simhooks::guarded(|| call_built(&l, &r, OPS[step.op as usize], step.pairing, step.f32_, step.clone_ops, step.save)));
        sh.sched.set_in_flight(me, false);
        let events = h.events.get();
        if matches!(out, Outcome::Cancelled) && h.connect_steps.get() > 0 {
            sh.cnt("fault_cancellation_fired_inside_ring_assembly");
        }
        let (outcome, keep): (Outcome<Vec<u64>>, Option<Operand>) = match out {
            Outcome::Ok((img, k)) => (Outcome::Ok(img), k),
            Outcome::Panic(m) => (Outcome::Panic(m), None),
            Outcome::Cancelled => (Outcome::Cancelled, None),
            Outcome::Budget => (Outcome::Budget, None),
        };
        // ---- oracle, while the run proceeds
        let mut viol: Option<Violation> = None;
        if !l.intact() || !r.intact() || sh.pool.iter().any(|b| !b.intact()) {
            viol = Some(Violation { class: "operand_modified".into(), detail: format!("{}: an operand's bits or buffers changed during the call", describe(step, me, i)) });
        } else if outcome != ex.outcome {
            let ctx = format!("{}{}{}", if first_on_thread { " first call on a fresh thread;" } else { "" },
                if after_cancel { " previous call on this thread was cancelled;" } else { "" },
                if others > 0 { format!(" {} other call(s) in flight;", others) } else { String::new() });
            match (&outcome, &ex.outcome) {
                (Outcome::Ok(a), Outcome::Ok(b)) => {
                    let pos = a.iter().zip(b.iter()).position(|(x, y)| x != y);
                    viol = Some(Violation { class: "result_differs".into(), detail: format!("{}:{} result differs from the same call in isolation ({} vs {} words, first difference at word {:?})", describe(step, me, i), ctx, a.len(), b.len(), pos) });
                }
                (Outcome::Ok(_), Outcome::Cancelled) => {
                    // fewer events than in the reference run: the cancellation point was not reached
                    viol = Some(Violation { class: "result_differs".into(), detail: format!("{}:{} the sweep processed {} events where the isolated run processed at least {}", describe(step, me, i), ctx, events, ex.cancel_k) });
                }
                (a, b) => {
                    viol = Some(Violation { class: "outcome_differs".into(), detail: format!("{}:{} ended with {} {} but in isolation with {} {}", describe(step, me, i), ctx, a.tag(),
                        if let Outcome::Panic(m) = a { m.as_str() } else { "" }, b.tag(), if let Outcome::Panic(m) = b { m.as_str() } else { "" }) });
                }
            }
        }
        match &outcome {
            Outcome::Ok(_) => sh.cnt("calls_completed"),
            Outcome::Cancelled => sh.cnt("fault_cancellation_fired_inside_sweep"),
            Outcome::Panic(_) => sh.cnt("out_of_scope_library_panic_same_in_isolation"),
            Outcome::Budget => sh.cnt("out_of_scope_event_budget_same_in_isolation"),
        }
        if pol != Policy::CANON {
            sh.cnt("fault_heap_policy_calls");
        }
        if step.clone_ops {
            sh.cnt("fault_operands_as_temporaries");
        }
        if others > 0 {
            sh.cnt("probe_call_overlapped_other_calls");
        }
        if first_on_thread {
            sh.cnt("probe_first_call_on_fresh_thread");
        }
        if after_cancel {
            sh.cnt("probe_call_after_cancellation_on_same_thread");
        }
        if matches!(step.lhs, Src::Saved(_)) || matches!(step.rhs, Src::Saved(_)) {
            if !saved.is_empty() {
                sh.cnt("probe_result_fed_back_as_operand");
            }
        }
        {
            let mut t = LogHash::new();
            t.add(step.op as u64 | (step.pairing as u64) << 8 | (step.f32_ as u64) << 16);
            t.add(step.heap as u64);
            t.add(first_on_thread as u64 | (after_cancel as u64) << 1 | (step.clone_ops as u64) << 2);
            t.add(others.min(3));
            t.add(matches!(outcome, Outcome::Ok(_)) as u64);
            sh.tuples.lock().unwrap_or_else(|e| e.into_inner()).push(t.0);
        }
        sh.history.lock().unwrap_or_else(|e| e.into_inner()).push(Event { client: me, step: i, outcome_hash: hash_outcome(&outcome), events });
        after_cancel = matches!(outcome, Outcome::Cancelled);
        first_on_thread = false;
        if let Some(v) = viol {
            let mut g = sh.violation.lock().unwrap_or_else(|e| e.into_inner());
            if g.is_none() {
                *g = Some(v);
            }
            sh.stop.store(true, SeqCst);
            stop_now = true;
            continue;
        }
        if let (Some(k), true, true) = (keep, ex.cancel_k == 0, rep == 1) {
            saved.push(heap::with_policy(Policy::CANON, || Arc::new(Built::new(k))));
        }
        }
        if stop_now {
            break;
        }
        i += 1;
    }
    *h.yielder.borrow_mut() = None;
    sh.sched.finish(me);
}

impl C12World {
    /// Reference pass: every call in isolation on this thread, passthrough heap, no other client.
    fn expectations(&self, pool: &[Arc<Built>], st: &mut Stats) -> Vec<Vec<Expect>> {
        let h = simhooks::handler();
        *h.yielder.borrow_mut() = None;
        h.no_shortcut.set(false);
        h.no_early.set(false);
        let mut all = Vec::new();
        for script in &self.clients {
            let mut saved: Vec<Arc<Built>> = Vec::new();
            let mut ex = Vec::new();
            for step in script {
                if step.retire {
                    ex.push(Expect { outcome: Outcome::Cancelled, cancel_k: 0, budget: 0 });
                    continue;
                }
                let l = resolve(step.lhs, pool, &saved).clone();
                let r = resolve(step.rhs, pool, &saved).clone();
                let budget = simhooks::event_budget(geom::edge_count(&l.op) + geom::edge_count(&r.op));
                h.events.set(0);
                h.ticks.set(0);
                h.connect_steps.set(0);
                h.cancel_at.set(0);
                h.budget.set(budget);
                let out = heap::with_policy(Policy::CANON, || simhooks::guarded(|| call_built(&l, &r, OPS[step.op as usize], step.pairing, step.f32_, false, step.save)));
                let ticks = h.ticks.get();
                st.inc("reference_calls");
                // cancellation points: every sweep event and every step of the ring assembly
                let cancel_k = if step.cancel > 0 && ticks > 0 && matches!(out, Outcome::Ok(_)) { 1 + (step.cancel - 1) % ticks } else { 0 };
                let outcome = match out {
                    Outcome::Ok((img, keep)) => {
                        if cancel_k == 0 {
                            if let Some(k) = keep {
                                saved.push(heap::with_policy(Policy::CANON, || Arc::new(Built::new(k))));
                            }
                            Outcome::Ok(img)
                        } else {
                            Outcome::Cancelled
                        }
                    }
                    Outcome::Panic(m) => Outcome::Panic(m),
                    Outcome::Budget => Outcome::Budget,
                    Outcome::Cancelled => Outcome::Cancelled,
                };
                ex.push(Expect { outcome, cancel_k, budget });
            }
            all.push(ex);
        }
        all
    }
}

/// Long single-thread history: one large call, the same small call n-1 times, the large call again, with n
/// around a power of two (a wrapped generation counter or stamp makes the second large call see stale state).
fn soak_world(seed: u64, r: &mut Rng) -> C12World {
    let big_a = geom::gen_rect_operand(r, 14, 4);
    let big_b = geom::translate(&geom::gen_rect_operand(r, 14, 4), 1.0, 1.0);
    let tiny_a: Operand = vec![vec![vec![[0.0, 0.0], [2.0, 0.0], [2.0, 2.0], [0.0, 2.0], [0.0, 0.0]]]];
    let tiny_b: Operand = vec![vec![vec![[1.0, 1.0], [3.0, 1.0], [3.0, 3.0], [1.0, 3.0], [1.0, 1.0]]]];
    let base = *r.pick(&[256u32, 256, 65536, 65536, 65536]);
    let n = (base as i64 + r.range(-1, 1)) as u32;
    let heap = if r.chance(1, 2) { 0 } else { Policy { place: *r.pick(&PLACES), fill: *r.pick(&FILLS) }.code() };
    let op = *r.pick(&[1u8, 3]);
    let call = |lhs: u32, rhs: u32, op: u8, repeat: u32| Step {
        retire: false, op, lhs: Src::Pool(lhs), rhs: Src::Pool(rhs), pairing: 0, f32_: false, heap, clone_ops: false, cancel: 0, save: false, repeat,
    };
    C12World {
        operands: vec![big_a, big_b, tiny_a, tiny_b],
        clients: vec![{
            // a few small calls first, so that the first large call is not the thread's very first call and a
            // wrap-around falls on a small call
            let lead = r.below(6) as u32;
            let tiny_op = r.below(4) as u8;
            let mut script = Vec::new();
            if lead > 0 {
                script.push(call(2, 3, tiny_op, lead));
            }
            script.push(call(0, 1, op, 1));
            script.push(call(2, 3, tiny_op, n - 1));
            script.push(call(0, 1, op, 1));
            script
        }],
        yield16: 0,
        sched_seed: Rng::stream(seed, "schedule").next(),
        schedule: None,
        hash_seed: Rng::stream(seed, "hashkeys").next(),
        heap_seed: Rng::stream(seed, "heap").next(),
        recorded: Mutex::new(Vec::new()),
    }
}

/// A streak of calls that all take the bounding-box shortcut, then a boundary case on the same thread (boxes that
/// merely touch, or overlap by one unit): behaviour "learned" from a run of easy calls.
fn streak_world(seed: u64, r: &mut Rng) -> C12World {
    let sq = |x0: f64, y0: f64, x1: f64, y1: f64| -> Operand { vec![vec![vec![[x0, y0], [x1, y0], [x1, y1], [x0, y1], [x0, y0]]]] };
    let p = sq(0.0, 0.0, 2.0, 2.0);
    let far = sq(100.0, 0.0, 102.0, 2.0);
    let touching = match r.below(3) {
        0 => sq(2.0, 0.0, 4.0, 2.0),
        1 => sq(0.0, 2.0, 2.0, 4.0),
        _ => sq(2.0, 2.0, 4.0, 4.0),
    };
    let overlapping = sq(1.0, 1.0, 3.0, 3.0);
    let k = *r.pick(&[7u32, 8, 9, 16, 17, 33, 64, 65, 129, 300]);
    let op = r.below(4) as u8;
    let call = |lhs: u32, rhs: u32, op: u8, repeat: u32| Step {
        retire: false, op, lhs: Src::Pool(lhs), rhs: Src::Pool(rhs), pairing: 0, f32_: false, heap: 0, clone_ops: false, cancel: 0, save: false, repeat,
    };
    let mut script = vec![call(0, 1, op, k)];
    for _ in 0..1 + r.below(3) {
        script.push(call(0, 2 + r.below(2) as u32, r.below(4) as u8, 1));
    }
    C12World {
        operands: vec![p, far, touching, overlapping],
        clients: vec![script],
        yield16: 0,
        sched_seed: Rng::stream(seed, "schedule").next(),
        schedule: None,
        hash_seed: Rng::stream(seed, "hashkeys").next(),
        heap_seed: Rng::stream(seed, "heap").next(),
        recorded: Mutex::new(Vec::new()),
    }
}

fn src_json(s: Src) -> Value {
    match s {
        Src::Pool(j) => json!(["operand", j]),
        Src::Saved(j) => json!(["own_result", j]),
    }
}
fn src_from(v: &Value) -> Src {
    let j = v[1].as_u64().unwrap_or(0) as u32;
    if v[0] == "own_result" {
        Src::Saved(j)
    } else {
        Src::Pool(j)
    }
}
fn step_json(s: &Step) -> Value {
    if s.retire {
        return json!({"retire_thread": true});
    }
    json!({"op": OP_NAMES[s.op as usize], "lhs": src_json(s.lhs), "rhs": src_json(s.rhs), "pairing": s.pairing, "f32": s.f32_,
        "heap": s.heap, "heap_name": Policy::from_world(s.heap).name(), "clone_operands": s.clone_ops, "cancel": s.cancel, "save_result": s.save, "repeat": s.repeat})
}
fn step_from(v: &Value) -> Step {
    Step {
        retire: v["retire_thread"].as_bool().unwrap_or(false),
        op: OP_NAMES.iter().position(|n| Some(*n) == v["op"].as_str()).unwrap_or(0) as u8,
        lhs: src_from(&v["lhs"]),
        rhs: src_from(&v["rhs"]),
        pairing: v["pairing"].as_u64().unwrap_or(0) as u8,
        f32_: v["f32"].as_bool().unwrap_or(false),
        heap: v["heap"].as_u64().unwrap_or(0) as u32,
        clone_ops: v["clone_operands"].as_bool().unwrap_or(false),
        cancel: v["cancel"].as_u64().unwrap_or(0),
        save: v["save_result"].as_bool().unwrap_or(false),
        repeat: v["repeat"].as_u64().unwrap_or(1).max(1) as u32,
    }
}

impl World for C12World {
    const PROP: &'static str = "C12";
    const NONDETERMINISM_IS_VIOLATION: bool = true;
    const MINIMISE_SECS: f64 = 40.0;
    const MAX_VIOLATIONS_PER_WORKER: usize = 1;

    fn generate(seed: u64, _index: u64, _tier: Tier) -> Self {
        let mut r = Rng::stream(seed, "workload");
        let mut fr = Rng::stream(seed, "faults");
        if r.chance(1, 600) {
            return soak_world(seed, &mut r);
        }
        if r.chance(1, 300) {
            return streak_world(seed, &mut r);
        }
        let faulty = !fr.chance(1, 5);
        let g = 8 + r.below(6) as i64;
        let npool = 2 + r.below(5) as usize;
        let mut operands = Vec::new();
        for _ in 0..npool {
            let o = match r.below(10) {
                0..=4 => geom::gen_rect_operand(&mut r, g, 3),
                5..=6 => geom::gen_star_operand(&mut r, g),
                7..=8 => geom::gen_float_operand(&mut r),
                _ => {
                    if r.chance(1, 2) {
                        vec![]
                    } else {
                        geom::translate(&geom::gen_rect_operand(&mut r, g, 2), 100.0, 0.0)
                    }
                }
            };
            operands.push(o);
        }
        let nclients = if faulty { 1 + r.below(4) as usize } else { 1 };
        let mut clients = Vec::new();
        let mut budget_calls = 48usize;
        for _ in 0..nclients {
            let n = (1 + r.below(12) as usize).min(budget_calls.max(1));
            budget_calls = budget_calls.saturating_sub(n);
            let mut script = Vec::new();
            for _ in 0..n {
                if faulty && fr.chance(2, 25) && !script.is_empty() {
                    script.push(Step { retire: true, op: 0, lhs: Src::Pool(0), rhs: Src::Pool(0), pairing: 0, f32_: false, heap: 0, clone_ops: false, cancel: 0, save: false, repeat: 1 });
                    continue;
                }
                let src = |r: &mut Rng| if r.chance(1, 5) { Src::Saved(r.below(4) as u32) } else { Src::Pool(r.below(npool as u64) as u32) };
                let heap = if faulty && !fr.chance(3, 10) { Policy { place: *fr.pick(&PLACES), fill: *fr.pick(&FILLS) }.code() } else { 0 };
                script.push(Step {
                    retire: false,
                    op: r.below(4) as u8,
                    lhs: src(&mut r),
                    rhs: src(&mut r),
                    pairing: r.below(4) as u8,
                    f32_: r.chance(1, 5),
                    heap,
                    clone_ops: faulty && fr.chance(3, 10),
                    cancel: if faulty && fr.chance(1, 10) { 1 + fr.below(1000) } else { 0 },
                    save: r.chance(1, 3),
                    repeat: 1,
                });
            }
            clients.push(script);
        }
        // regrouped twins: the same rings in the same order, grouped differently into operands (a part moved from one
        // operand to the other, a hole turned into a part of its own) — called back to back on one client
        if r.chance(1, 6) {
            let x = geom::gen_rect_operand(&mut r, g, 3);
            let y = geom::translate(&geom::gen_rect_operand(&mut r, g, 2), 1.0, 1.0);
            if x.len() >= 2 {
                let base = operands.len() as u32;
                let mut x2 = x.clone();
                let moved = x2.pop().unwrap();
                let mut y2 = vec![moved];
                y2.extend(y.clone());
                // holes of the first part as parts of their own
                let mut x3: Operand = Vec::new();
                for p in &x {
                    for ring in p {
                        x3.push(vec![ring.clone()]);
                    }
                }
                operands.extend([x, y, x2, y2, x3]);
                let op = r.below(4) as u8;
                let mk = |l: u32, rr: u32| Step { retire: false, op, lhs: Src::Pool(base + l), rhs: Src::Pool(base + rr), pairing: 0, f32_: false, heap: 0, clone_ops: false, cancel: 0, save: false, repeat: 1 };
                let c = r.below(clients.len() as u64) as usize;
                let at = r.below(clients[c].len() as u64 + 1) as usize;
                let twin = match r.below(3) {
                    0 => vec![mk(0, 1), mk(2, 3)],
                    1 => vec![mk(2, 3), mk(0, 1)],
                    _ => vec![mk(0, 1), mk(4, 1)],
                };
                for (k, st) in twin.into_iter().enumerate() {
                    clients[c].insert(at + k, st);
                }
            }
        }
        // same-shape twins: two large operands with the same structure, the same vertex count and the same first
        // vertex that differ only in later coordinates (one part moved far away), used back to back as short-lived
        // temporaries (so that the second one tends to be allocated where the first one was)
        if r.chance(1, 10) {
            let mut big: Operand = Vec::new();
            for k in 0..(27 + r.below(14)) {
                let (x, y) = (3.0 * (k % 6) as f64, 3.0 * (k / 6) as f64);
                big.push(vec![vec![[x, y], [x + 2.0, y], [x + 2.0, y + 2.0], [x, y + 2.0], [x, y]]]);
            }
            let mut twin = geom::translate(&big, 500.0, 0.0);
            twin[0] = big[0].clone(); // same first vertex (and first part), everything else far away
            // the other operand sits where only the twin's far parts are
            let small: Operand = vec![vec![vec![[504.0, 4.0], [509.0, 4.0], [509.0, 9.0], [504.0, 9.0], [504.0, 4.0]]]];
            let base = operands.len() as u32;
            operands.extend([big, twin, small]);
            let op = r.below(4) as u8;
            let heap = Policy { place: *fr.pick(&[heap::Place::AscFifo, heap::Place::AscFifo, heap::Place::AscLifo]), fill: *fr.pick(&FILLS) }.code();
            let mk = |l: u32, rr: u32| Step { retire: false, op, lhs: Src::Pool(base + l), rhs: Src::Pool(base + rr), pairing: 0, f32_: false, heap, clone_ops: true, cancel: 0, save: false, repeat: 1 };
            let c = r.below(clients.len() as u64) as usize;
            let at = r.below(clients[c].len() as u64 + 1) as usize;
            let pair = if r.chance(1, 2) { vec![mk(2, 1), mk(2, 0)] } else { vec![mk(2, 0), mk(2, 1)] };
            for (k, st) in pair.into_iter().enumerate() {
                clients[c].insert(at + k, st);
            }
        }
        // a call whose result has hundreds of polygons (work that an implementation might split up)
        if r.chance(1, 40) {
            let n = 17 + r.below(8);
            let mut grid: Operand = Vec::new();
            for k in 0..n * n {
                let (x, y) = (3.0 * (k % n) as f64, 3.0 * (k / n) as f64);
                grid.push(vec![vec![[x, y], [x + 2.0, y], [x + 2.0, y + 2.0], [x, y + 2.0], [x, y]]]);
            }
            let cover: Operand = vec![vec![vec![[-1.0, -1.0], [3.0 * n as f64, -1.0], [3.0 * n as f64, 3.0 * n as f64 - 2.5], [-1.0, 3.0 * n as f64 - 2.5], [-1.0, -1.0]]]];
            let base = operands.len() as u32;
            operands.extend([grid, cover]);
            let op = *r.pick(&[0u8, 1, 3]);
            // on one client, or on two clients at once (two large ring assemblies overlapping step by step)
            let c = r.below(clients.len() as u64) as usize;
            let at = r.below(clients[c].len() as u64 + 1) as usize;
            let big_step = |op: u8| Step { retire: false, op, lhs: Src::Pool(base), rhs: Src::Pool(base + 1), pairing: 0, f32_: false, heap: 0, clone_ops: false, cancel: 0, save: false, repeat: 2 };
            clients[c].insert(at, big_step(op));
            if clients.len() >= 2 && r.chance(1, 2) {
                let c2 = (c + 1 + r.below(clients.len() as u64 - 1) as usize) % clients.len();
                let at2 = r.below(clients[c2].len() as u64 + 1) as usize;
                let op2 = *r.pick(&[0u8, 1, 3]);
                clients[c2].insert(at2, big_step(op2));
            }
        }
        // high-water mark: a call whose result is one ring of thousands of vertices, and later on the same client
        // small calls on shapes that touch in a single vertex (anything a thread keeps from the large call — the
        // capacity of a reused buffer, a grown table — would have to show in the small ones)
        if r.chance(1, 25) {
            let teeth = 600 + r.below(2400);
            let mut ring: Vec<[f64; 2]> = vec![[0.0, 0.0]];
            for i in 0..teeth {
                let y = (2 * i) as f64;
                ring.extend([[1.0, y], [10.0, y], [10.0, y + 1.0], [1.0, y + 1.0]]);
            }
            ring.extend([[0.0, (2 * teeth - 1) as f64], [0.0, 0.0]]);
            let comb: Operand = vec![vec![ring]];
            let bump: Operand = vec![vec![vec![[-1.0, -1.0], [0.5, -1.0], [0.5, 1.0], [-1.0, 1.0], [-1.0, -1.0]]]];
            let tri_a: Operand = vec![vec![vec![[0.0, 0.0], [4.0, 0.0], [4.0, 1.0], [0.0, 0.0]]]];
            let tri_b: Operand = vec![vec![vec![[0.0, 0.0], [4.0, 2.0], [4.0, 4.0], [0.0, 0.0]]]];
            let both: Operand = vec![tri_a[0].clone(), tri_b[0].clone()];
            let sq_a: Operand = vec![vec![vec![[0.0, 0.0], [2.0, 0.0], [2.0, 2.0], [0.0, 2.0], [0.0, 0.0]]]];
            let sq_b: Operand = vec![vec![vec![[2.0, 2.0], [4.0, 2.0], [4.0, 4.0], [2.0, 4.0], [2.0, 2.0]]]];
            let far: Operand = vec![vec![vec![[20.0, 0.0], [22.0, 0.0], [22.0, 2.0], [20.0, 2.0], [20.0, 0.0]]]];
            let base = operands.len() as u32;
            operands.extend([comb, bump, tri_a, tri_b, both, sq_a, sq_b, far]);
            let mk = |op: u8, l: u32, rr: u32| Step { retire: false, op, lhs: Src::Pool(base + l), rhs: Src::Pool(base + rr), pairing: 0, f32_: false, heap: 0, clone_ops: false, cancel: 0, save: false, repeat: 1 };
            let c = r.below(clients.len() as u64) as usize;
            let at = r.below(clients[c].len() as u64 + 1) as usize;
            clients[c].insert(at, mk(*r.pick(&[1u8, 3, 1]), 0, 1));
            let small = [(2u32, 3u32), (4, 7), (5, 6), (4, 5), (3, 2)];
            for _ in 0..(2 + r.below(3)) {
                let (l, rr) = *r.pick(&small);
                let pos = at + 1 + r.below((clients[c].len() - at) as u64) as usize;
                clients[c].insert(pos, mk(r.below(4) as u8, l, rr));
            }
        }
        let yield16 = if faulty { *fr.pick(&[0u64, 1, 1, 4, 16]) } else { 0 };
        C12World {
            operands, clients, yield16,
            sched_seed: Rng::stream(seed, "schedule").next(),
            schedule: None,
            hash_seed: Rng::stream(seed, "hashkeys").next(),
            heap_seed: Rng::stream(seed, "heap").next(),
            recorded: Mutex::new(Vec::new()),
        }
    }

    fn to_json(&self) -> Value {
        let rec = self.recorded.lock().unwrap().clone();
        let explicit = self.schedule.clone().or(if rec.is_empty() { None } else { Some(rec) });
        json!({
            "operands": self.operands.iter().map(geom::operand_json).collect::<Vec<_>>(),
            "operands_wkt": self.operands.iter().map(geom::wkt).collect::<Vec<_>>(),
            "clients": self.clients.iter().map(|s| s.iter().map(step_json).collect::<Vec<_>>()).collect::<Vec<_>>(),
            "yield_per_sweep_event_16ths": self.yield16,
            "schedule_seed": self.sched_seed.to_string(),
            "schedule_explicit": explicit,
            "hash_key_seed": self.hash_seed.to_string(),
            "heap_seed": self.heap_seed.to_string(),
        })
    }

    fn from_json(v: &Value) -> Result<Self, String> {
        let operands = v["operands"].as_array().ok_or("operands")?.iter().map(geom::operand_from).collect::<Result<Vec<_>, _>>()?;
        let clients = v["clients"].as_array().ok_or("clients")?.iter()
            .map(|s| s.as_array().map(|a| a.iter().map(step_from).collect::<Vec<_>>()).unwrap_or_default()).collect();
        let p = |k: &str| v[k].as_str().and_then(|s| s.parse::<u64>().ok()).unwrap_or(0);
        Ok(C12World {
            operands, clients,
            yield16: v["yield_per_sweep_event_16ths"].as_u64().unwrap_or(0),
            sched_seed: p("schedule_seed"),
            schedule: v["schedule_explicit"].as_array().map(|a| a.iter().map(|x| x.as_u64().unwrap_or(0) as u8).collect()),
            hash_seed: p("hash_key_seed"),
            heap_seed: p("heap_seed"),
            recorded: Mutex::new(Vec::new()),
        })
    }

    fn run(&self, st: &mut Stats) -> Verdict {
        if self.operands.is_empty() || self.clients.is_empty() {
            return Verdict { violation: None, log_hash: 0 };
        }
        let _ = heap::reset(self.heap_seed);
        heap::set_hash_seed(self.hash_seed);
        let calls0 = heap::GETRANDOM_CALLS.load(SeqCst);
        // operands live in the simulated heap too: their addresses are part of the world
        let pool: Vec<Arc<Built>> = heap::with_policy(Policy::CANON, || self.operands.iter().map(|o| Arc::new(Built::new(o.clone()))).collect());
        let expects = self.expectations(&pool, st);
        let call_granularity = std::env::var("SIM_CALL_GRANULARITY").is_ok();
        let mode = match &self.schedule {
            Some(list) => Mode::Explicit { list: list.clone(), pos: 0 },
            None => Mode::Seeded { rng: Rng(self.sched_seed), yield16: if call_granularity { 0 } else { self.yield16 } },
        };
        let n = self.clients.len();
        let sh = Arc::new(Shared {
            pool, expects, scripts: self.clients.clone(), sched: Sched::new(n, mode), history: Mutex::new(Vec::new()),
            violation: Mutex::new(None), stop: AtomicBool::new(false), handles: Mutex::new(Vec::new()), tuples: Mutex::new(Vec::new()),
            counters: Mutex::new(Default::default()),
        });
        for me in 0..n {
            let sh2 = sh.clone();
            let jh = std::thread::Builder::new().stack_size(4 << 20).spawn(move || client_main(sh2, me, 0, Vec::new(), true)).expect("spawn client");
            sh.handles.lock().unwrap().push(jh);
        }
        let ok = sh.sched.run(Duration::from_secs(15));
        if !ok {
            use std::io::Write;
            // No scheduling point for 15 s. Either the running client waits for something the simulator does not own
            // (e.g. a lock that another, parked client holds across a sweep event), or it computes without ever coming
            // back (a loop that does not end in this interleaving). The process's CPU time tells the two apart.
            let cpu = || -> f64 {
                std::fs::read_to_string("/proc/self/stat").ok().and_then(|t| {
                    let f: Vec<&str> = t.rsplit(')').next().unwrap_or("").split_whitespace().collect();
                    Some((f.get(11)?.parse::<f64>().ok()? + f.get(12)?.parse::<f64>().ok()?) / 100.0)
                }).unwrap_or(0.0)
            };
            let c0 = cpu();
            std::thread::sleep(Duration::from_millis(1500));
            let busy = cpu() - c0 > 0.9;
            if busy {
                // every call of this world returned in isolation (the reference pass is over), so a call that keeps
                // computing here is an outcome that depends on the interleaving
                let rec = sh.sched.m.lock().map(|g| g.log.clone()).unwrap_or_default();
                *self.recorded.lock().unwrap() = rec;
                println!("NEVER-RETURNS {}", self.to_json());
                let _ = std::io::stdout().flush();
                std::process::exit(5);
            }
            // The blocked threads cannot be recovered; the parent restarts the batch at call granularity (no scheduling
            // points inside a call), where such a lock is never contended.
            println!("STALLED: a simulated client blocks on something the simulator does not own");
            let _ = std::io::stdout().flush();
            std::process::exit(4);
        }
        loop {
            let jh = sh.handles.lock().unwrap_or_else(|e| e.into_inner()).pop();
            match jh {
                Some(jh) => {
                    if jh.join().is_err() {
                        st.inc("harness_client_thread_panicked");
                    }
                }
                None => break,
            }
        }
        let violation = sh.violation.lock().unwrap_or_else(|e| e.into_inner()).take();
        // ---- history check: every recorded call agrees with its reference (already enforced step by step);
        // the log hash covers the whole history and every scheduler decision
        let mut log = LogHash::new();
        let g = sh.sched.m.lock().unwrap_or_else(|e| e.into_inner());
        for c in &g.log {
            log.add(*c as u64);
        }
        *self.recorded.lock().unwrap() = g.log.clone();
        let hist = sh.history.lock().unwrap_or_else(|e| e.into_inner());
        let mut total_events = 0;
        for e in hist.iter() {
            log.add(e.client as u64);
            log.add(e.step as u64);
            log.add(e.outcome_hash);
            log.add(e.events);
            total_events += e.events;
        }
        let keys = heap::GETRANDOM_CALLS.load(SeqCst) - calls0;
        log.add(keys);
        st.inc("worlds");
        if n == 1 && self.clients[0].iter().all(|s| s.heap == 0 && s.cancel == 0 && !s.retire && !s.clone_ops) {
            st.inc("worlds_fault_free_configuration");
        }
        st.add("simulated_client_threads", n as u64);
        st.add("scheduler_steps", g.points);
        st.add("scheduler_switches", g.switches);
        st.add("sweep_events_processed", total_events);
        st.add("library_calls_in_simulation", hist.len() as u64);
        st.add("fault_hash_keys_handed_to_fresh_threads", keys);

        st.max("max_calls_in_flight_at_once", g.max_in_flight);
        for (k, v) in sh.counters.lock().unwrap_or_else(|e| e.into_inner()).iter() {
            st.add(k, *v);
        }
        for k in ["calls_completed", "fault_cancellation_fired_inside_sweep", "fault_cancellation_fired_inside_ring_assembly", "fault_heap_policy_calls", "fault_operands_as_temporaries", "fault_thread_retired",
            "probe_call_overlapped_other_calls", "probe_first_call_on_fresh_thread", "probe_call_after_cancellation_on_same_thread", "probe_result_fed_back_as_operand"] {
            st.add(k, 0);
        }
        if g.switches > 0 {
            let mut s = LogHash::new();
            for c in &g.log {
                s.add(*c as u64);
            }
            st.distinct.insert(s.0);
        }
        for t in sh.tuples.lock().unwrap_or_else(|e| e.into_inner()).iter() {
            st.distinct2.insert(*t);
        }
        let me = self;
        st.sample(2, || me.to_json());
        log.add(violation.is_some() as u64);
        Verdict { violation, log_hash: log.0 }
    }

    fn shrink(&self) -> Vec<Self> {
        let mut out: Vec<Self> = Vec::new();
        // 0. pin the schedule that was recorded
        if self.schedule.is_none() {
            let rec = self.recorded.lock().unwrap().clone();
            let mut w = self.clone();
            w.schedule = Some(rec);
            out.push(w);
            return out;
        }
        // 1. whole clients
        if self.clients.len() > 1 {
            for c in 0..self.clients.len() {
                if self.clients[c].is_empty() {
                    continue;
                }
                let mut w = self.clone();
                w.clients[c].clear(); // keep indices of the others stable for the explicit schedule
                if w.clients.iter().any(|s| !s.is_empty()) {
                    out.push(w);
                }
            }
        }
        // 2. sequential schedule, shorter schedules
        if let Some(list) = &self.schedule {
            if !list.is_empty() {
                let mut w = self.clone();
                w.schedule = Some(vec![]);
                out.push(w);
                let mut w = self.clone();
                w.schedule = Some(list[..list.len() / 2].to_vec());
                out.push(w);
            }
        }
        // 3. steps
        for c in 0..self.clients.len() {
            let n = self.clients[c].len();
            let mut chunk = n / 2;
            while chunk >= 1 {
                let mut s = 0;
                while s < n {
                    let mut w = self.clone();
                    w.clients[c].drain(s..(s + chunk).min(n));
                    out.push(w);
                    s += chunk;
                }
                chunk /= 2;
            }
        }
        // 4. faults to none
        for c in 0..self.clients.len() {
            for i in 0..self.clients[c].len() {
                let s = &self.clients[c][i];
                let mut push = |f: &dyn Fn(&mut Step)| {
                    let mut w = self.clone();
                    f(&mut w.clients[c][i]);
                    if w.clients[c][i] != *s {
                        out.push(w);
                    }
                };
                push(&|s| s.repeat = 1);
                push(&|s| s.repeat = (s.repeat / 2).max(1));
                push(&|s| s.repeat = s.repeat.saturating_sub(1).max(1));
                push(&|s| s.heap = 0);
                push(&|s| s.clone_ops = false);
                push(&|s| s.cancel = 0);
                push(&|s| s.f32_ = false);
                push(&|s| s.pairing = 0);
                push(&|s| { if let Src::Saved(j) = s.lhs { s.lhs = Src::Pool(j) } });
                push(&|s| { if let Src::Saved(j) = s.rhs { s.rhs = Src::Pool(j) } });
            }
        }
        // 5. operands: drop parts and holes
        for k in 0..self.operands.len() {
            for p in 0..self.operands[k].len() {
                if self.operands[k].len() > 1 {
                    let mut w = self.clone();
                    w.operands[k].remove(p);
                    out.push(w);
                }
                for hl in 1..self.operands[k][p].len() {
                    let mut w = self.clone();
                    w.operands[k][p].remove(hl);
                    out.push(w);
                }
            }
        }
        out
    }

    fn signature(&self) -> String {
        let mut h = LogHash::new();
        for o in &self.operands {
            h.add_bytes(geom::wkt(o).as_bytes());
        }
        h.add_bytes(serde_json::to_string(&self.clients.iter().map(|s| s.iter().map(step_json).collect::<Vec<_>>()).collect::<Vec<_>>()).unwrap().as_bytes());
        format!("c12:{:016x}", h.0)
    }
}
