//! The simulator's side of the `verif-hooks` seam: per-thread handler with an event budget,
//! a cancellation point, cooperative yields and the two buggify switches.

use crate::heap;
use geo_booleanop::verif::{self, Handler, Site};
use std::cell::{Cell, RefCell};
use std::panic::{catch_unwind, AssertUnwindSafe};
use std::rc::Rc;

pub struct Cancelled;
pub struct BudgetExceeded;

#[derive(Default)]
pub struct SimHandler {
    pub events: Cell<u64>,
    /// sweep events + connect steps: the clock that cancellation points are counted on
    pub ticks: Cell<u64>,
    pub connect_steps: Cell<u64>,
    pub budget: Cell<u64>,
    pub cancel_at: Cell<u64>,
    pub no_shortcut: Cell<bool>,
    pub no_early: Cell<bool>,
    pub widen_source: Cell<bool>,
    pub shortcut_fired: Cell<u32>,
    pub early_fired: Cell<u32>,
    pub recompute_fired: Cell<u32>,
    pub boxes_consulted: Cell<u32>,
    pub after_sweep_seen: Cell<bool>,
    pub remaining_after_sweep: Cell<usize>,
    pub yielder: RefCell<Option<Rc<dyn Fn()>>>,
}

impl Handler for SimHandler {
    fn on_event(&self) {
        // harness code: never allocate from the simulated heap, even when called inside a simulated region
        heap::off(|| {
            let n = self.events.get() + 1;
            self.events.set(n);
            let t = self.ticks.get() + 1;
            self.ticks.set(t);
            if t == self.cancel_at.get() {
                std::panic::panic_any(Cancelled);
            }
            if n > self.budget.get() {
                std::panic::panic_any(BudgetExceeded);
            }
            let y = self.yielder.borrow().clone();
            if let Some(y) = y {
                y();
            }
        })
    }
    fn on_connect_step(&self) {
        heap::off(|| {
            let c = self.connect_steps.get() + 1;
            self.connect_steps.set(c);
            // the ring assembly follows each result edge once: far more steps than events allowed means it does not end
            if c > self.budget.get().saturating_mul(4).saturating_add(1000) {
                std::panic::panic_any(BudgetExceeded);
            }
            let t = self.ticks.get() + 1;
            self.ticks.set(t);
            if t == self.cancel_at.get() {
                std::panic::panic_any(Cancelled);
            }
            let y = self.yielder.borrow().clone();
            if let Some(y) = y {
                y();
            }
        })
    }
    fn probe(&self, site: Site) {
        match site {
            Site::Shortcut => self.shortcut_fired.set(self.shortcut_fired.get() + 1),
            Site::EarlyBreak => self.early_fired.set(self.early_fired.get() + 1),
            Site::Recompute => self.recompute_fired.set(self.recompute_fired.get() + 1),
        }
    }
    fn after_sweep(&self, remaining: usize) {
        self.after_sweep_seen.set(true);
        self.remaining_after_sweep.set(remaining);
    }
    fn widen_boxes_at_source(&self) -> bool {
        self.widen_source.get()
    }
    fn disable_shortcut(&self) -> bool {
        self.boxes_consulted.set(self.boxes_consulted.get() + 1);
        self.no_shortcut.get()
    }
    fn disable_early_exit(&self) -> bool {
        self.no_early.get()
    }
}

thread_local! {
    static HANDLER: RefCell<Option<Rc<SimHandler>>> = const { RefCell::new(None) };
}

/// The calling thread's handler, installed on first use.
pub fn handler() -> Rc<SimHandler> {
    HANDLER.with(|h| {
        let mut h = h.borrow_mut();
        if h.is_none() {
            let hd = Rc::new(SimHandler::default());
            hd.budget.set(u64::MAX);
            verif::set_handler(Some(hd.clone() as Rc<dyn Handler>));
            *h = Some(hd);
        }
        h.as_ref().unwrap().clone()
    })
}

/// Remove the handler (the library then behaves exactly as the build without the feature).
pub fn uninstall() {
    HANDLER.with(|h| *h.borrow_mut() = None);
    verif::set_handler(None);
}

#[derive(Clone, Debug, PartialEq)]
pub enum Outcome<T> {
    Ok(T),
    Panic(String),
    Cancelled,
    Budget,
}
impl<T> Outcome<T> {
    pub fn tag(&self) -> &'static str {
        match self {
            Outcome::Ok(_) => "ok",
            Outcome::Panic(_) => "panic",
            Outcome::Cancelled => "cancelled",
            Outcome::Budget => "budget",
        }
    }
}

/// Run `f` (a library call) and classify how it ended. The payload of a panic is released
/// under the policy that is current for the caller.
pub fn guarded<T>(f: impl FnOnce() -> T) -> Outcome<T> {
    match catch_unwind(AssertUnwindSafe(f)) {
        Ok(v) => Outcome::Ok(v),
        Err(p) => {
            let o = if p.is::<Cancelled>() {
                Outcome::Cancelled
            } else if p.is::<BudgetExceeded>() {
                Outcome::Budget
            } else {
                let msg = heap::off(|| {
                    p.downcast_ref::<String>().cloned().or_else(|| p.downcast_ref::<&str>().map(|s| s.to_string())).unwrap_or_else(|| "non-string panic".into())
                });
                Outcome::Panic(msg)
            };
            drop(p);
            o
        }
    }
}

/// Step budget of one call: the quadratic bound for small inputs, a generous linear one for large inputs (the pinned
/// tree has inputs on which the sweep never terminates; with thousands of edges the quadratic bound would let such a
/// call run for hours).
pub fn event_budget(edges: usize) -> u64 {
    let n = edges as u64;
    (8 * n * n + 1000).min(64 * n + 20_000)
}
