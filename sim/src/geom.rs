//! Operands as explicit data (so that replay files do not depend on generator code), seeded
//! generators for three families, bit images, exact region comparison for rectilinear results.

use crate::rng::Rng;
use geo_booleanop::boolean::Float;
use geo_types::{Coord, LineString, MultiPolygon, Polygon};
use serde_json::{json, Value};

pub type Ring = Vec<[f64; 2]>;
pub type Poly = Vec<Ring>; // first ring = exterior
pub type Operand = Vec<Poly>;

pub fn to_mp64(o: &Operand) -> MultiPolygon<f64> {
    MultiPolygon(o.iter().map(|p| {
        let mut rings = p.iter().map(|r| LineString(r.iter().map(|c| Coord { x: c[0], y: c[1] }).collect::<Vec<_>>()));
        let ext = rings.next().unwrap_or_else(|| LineString(vec![]));
        Polygon::new(ext, rings.collect())
    }).collect())
}
pub fn to_mp32(o: &Operand) -> MultiPolygon<f32> {
    MultiPolygon(o.iter().map(|p| {
        let mut rings = p.iter().map(|r| LineString(r.iter().map(|c| Coord { x: c[0] as f32, y: c[1] as f32 }).collect::<Vec<_>>()));
        let ext = rings.next().unwrap_or_else(|| LineString(vec![]));
        Polygon::new(ext, rings.collect())
    }).collect())
}
pub fn from_mp<F: Float>(m: &MultiPolygon<F>) -> Operand {
    m.0.iter().map(|p| {
        let mut rings: Poly = vec![p.exterior().0.iter().map(|c| [c.x.into(), c.y.into()]).collect()];
        for h in p.interiors() {
            rings.push(h.0.iter().map(|c| [c.x.into(), c.y.into()]).collect());
        }
        rings
    }).collect()
}

/// exactly representable in f32?
pub fn fits_f32(o: &Operand) -> bool {
    o.iter().flatten().flatten().all(|c| (c[0] as f32) as f64 == c[0] && (c[1] as f32) as f64 == c[1])
}

/// edges that the queue-filling stage must turn into two events each (collapsed edges are skipped there)
pub fn nondegenerate_edges(o: &Operand) -> usize {
    o.iter().flatten().map(|r| r.windows(2).filter(|w| w[0] != w[1]).count()).sum()
}

pub fn edge_count(o: &Operand) -> usize {
    o.iter().flatten().map(|r| r.len().saturating_sub(1)).sum()
}

/// Bit image with structure markers: polygons, rings, vertices, coordinate bits.
pub fn image<F: Float>(m: &MultiPolygon<F>) -> Vec<u64> {
    let mut v = Vec::new();
    v.push(m.0.len() as u64);
    for p in &m.0 {
        v.push(1 + p.interiors().len() as u64);
        for r in std::iter::once(p.exterior()).chain(p.interiors().iter()) {
            v.push(r.0.len() as u64);
            for c in &r.0 {
                let (x, y): (f64, f64) = (c.x.into(), c.y.into());
                v.push(x.to_bits());
                v.push(y.to_bits());
            }
        }
    }
    v
}

/// Image plus the addresses and capacities of every buffer (purity: nothing moved or was rewritten).
pub fn deep_image<F: Float>(m: &MultiPolygon<F>) -> Vec<u64> {
    let mut v = image(m);
    v.push(m.0.as_ptr() as u64);
    v.push(m.0.capacity() as u64);
    for p in &m.0 {
        v.push(p.exterior().0.as_ptr() as u64);
        v.push(p.exterior().0.capacity() as u64);
        v.push(p.interiors().as_ptr() as u64);
        for r in p.interiors() {
            v.push(r.0.as_ptr() as u64);
            v.push(r.0.capacity() as u64);
        }
    }
    v
}

fn num_json(x: f64) -> Value {
    if x.fract() == 0.0 && x.abs() < 9.0e15 && !(x == 0.0 && x.is_sign_negative()) {
        json!(x as i64)
    } else {
        json!(format!("0x{:016x}", x.to_bits()))
    }
}
fn num_from(v: &Value) -> Result<f64, String> {
    if let Some(i) = v.as_i64() {
        return Ok(i as f64);
    }
    if let Some(s) = v.as_str() {
        if let Some(h) = s.strip_prefix("0x") {
            return u64::from_str_radix(h, 16).map(f64::from_bits).map_err(|e| e.to_string());
        }
    }
    Err(format!("bad coordinate {}", v))
}
pub fn operand_json(o: &Operand) -> Value {
    Value::Array(o.iter().map(|p| Value::Array(p.iter().map(|r| Value::Array(r.iter().map(|c| json!([num_json(c[0]), num_json(c[1])])).collect())).collect())).collect())
}
pub fn operand_from(v: &Value) -> Result<Operand, String> {
    let mut o = Operand::new();
    for p in v.as_array().ok_or("operand")? {
        let mut poly = Poly::new();
        for r in p.as_array().ok_or("polygon")? {
            let mut ring = Ring::new();
            for c in r.as_array().ok_or("ring")? {
                ring.push([num_from(&c[0])?, num_from(&c[1])?]);
            }
            poly.push(ring);
        }
        o.push(poly);
    }
    Ok(o)
}
pub fn wkt(o: &Operand) -> String {
    let ring = |r: &Ring| format!("({})", r.iter().map(|c| format!("{} {}", c[0], c[1])).collect::<Vec<_>>().join(", "));
    if o.is_empty() {
        return "MULTIPOLYGON EMPTY".into();
    }
    format!("MULTIPOLYGON({})", o.iter().map(|p| format!("({})", p.iter().map(ring).collect::<Vec<_>>().join(", "))).collect::<Vec<_>>().join(", "))
}

// ------------------------------------------------------------------ generators

#[derive(Clone, Copy, Debug, PartialEq)]
pub struct Rect {
    pub x0: i64,
    pub y0: i64,
    pub x1: i64,
    pub y1: i64,
}

fn rect_ring(q: Rect, r: &mut Rng) -> Ring {
    let mut pts = vec![[q.x0 as f64, q.y0 as f64], [q.x1 as f64, q.y0 as f64], [q.x1 as f64, q.y1 as f64], [q.x0 as f64, q.y1 as f64]];
    if r.chance(1, 2) {
        pts.reverse();
    }
    let k = r.below(4) as usize;
    pts.rotate_left(k);
    let first = pts[0];
    pts.push(first);
    pts
}

/// how two closed rectangles meet: 0 disjoint, 1 corner touch, 2 share an edge piece or overlap
fn meet(a: Rect, b: Rect) -> u8 {
    let ox = a.x1.min(b.x1) - a.x0.max(b.x0);
    let oy = a.y1.min(b.y1) - a.y0.max(b.y0);
    if ox < 0 || oy < 0 {
        0
    } else if ox == 0 && oy == 0 {
        1
    } else {
        2
    }
}

fn random_rect(r: &mut Rng, g: i64, max_side: i64) -> Rect {
    let w = 1 + r.below(max_side as u64) as i64;
    let h = 1 + r.below(max_side as u64) as i64;
    let x0 = r.below((g - w + 1).max(1) as u64) as i64;
    let y0 = r.below((g - h + 1).max(1) as u64) as i64;
    Rect { x0, y0, x1: x0 + w, y1: y0 + h }
}

/// 1..=max_parts axis-parallel integer rectangles (interior-disjoint, touching at corners at most),
/// each with 0..=2 rectangular holes strictly inside and mutually disjoint. Valid by construction.
pub fn gen_rect_operand(r: &mut Rng, g: i64, max_parts: u64) -> Operand {
    let want = 1 + r.below(max_parts) as usize;
    let mut rects: Vec<Rect> = Vec::new();
    let mut tries = 0;
    while rects.len() < want && tries < 60 {
        tries += 1;
        let q = random_rect(r, g, (g / 2).max(2));
        if rects.iter().all(|p| meet(*p, q) <= 1) {
            rects.push(q);
        }
    }
    // sometimes the first part is a large frame: a big rectangle with one big hole (room for islands and for the
    // other operand to sit inside the hole)
    let frame = r.chance(1, 4) && g >= 7;
    if frame {
        let q = Rect { x0: r.below(2) as i64, y0: r.below(2) as i64, x1: g - r.below(2) as i64, y1: g - r.below(2) as i64 };
        rects.retain(|p| meet(*p, q) <= 1);
        rects.insert(0, q);
    }
    let mut o = Operand::new();
    for (qi, q) in rects.into_iter().enumerate() {
        let mut poly: Poly = vec![rect_ring(q, r)];
        let nh = if q.x1 - q.x0 >= 3 && q.y1 - q.y0 >= 3 { r.below(3) } else { 0 };
        let mut holes: Vec<Rect> = Vec::new();
        if frame && qi == 0 {
            let m = 1 + r.below(2) as i64;
            holes.push(Rect { x0: q.x0 + m, y0: q.y0 + m, x1: q.x1 - m, y1: q.y1 - m });
        }
        for _ in 0..nh * 4 {
            if holes.len() as u64 >= nh {
                break;
            }
            let w = 1 + r.below((q.x1 - q.x0 - 2) as u64) as i64;
            let h = 1 + r.below((q.y1 - q.y0 - 2) as u64) as i64;
            let x0 = q.x0 + 1 + r.below((q.x1 - q.x0 - 1 - w) as u64) as i64;
            let y0 = q.y0 + 1 + r.below((q.y1 - q.y0 - 1 - h) as u64) as i64;
            let hq = Rect { x0, y0, x1: x0 + w, y1: y0 + h };
            if holes.iter().all(|p| meet(*p, hq) == 0) {
                holes.push(hq);
            }
        }
        let mut islands: Vec<Rect> = Vec::new();
        for hq in &holes {
            // an island of the same operand strictly inside the hole (a separate polygon, possibly with its own hole)
            if hq.x1 - hq.x0 >= 3 && hq.y1 - hq.y0 >= 3 && r.chance(1, 2) {
                let w = 1 + r.below((hq.x1 - hq.x0 - 2) as u64) as i64;
                let h = 1 + r.below((hq.y1 - hq.y0 - 2) as u64) as i64;
                let x0 = hq.x0 + 1 + r.below((hq.x1 - hq.x0 - 1 - w) as u64) as i64;
                let y0 = hq.y0 + 1 + r.below((hq.y1 - hq.y0 - 1 - h) as u64) as i64;
                islands.push(Rect { x0, y0, x1: x0 + w, y1: y0 + h });
            }
        }
        for hq in holes {
            poly.push(rect_ring(hq, r));
        }
        o.push(poly);
        for iq in islands {
            o.push(vec![rect_ring(iq, r)]);
        }
    }
    o
}

/// rectangle parts (each possibly with rectangular holes): outer rectangles pairwise at most corner-touching,
/// or one strictly inside a hole of another
pub fn valid_rect_parts(o: &Operand) -> bool {
    let rect_of = |r: &Ring| -> Option<Rect> {
        let b = bbox(&vec![vec![r.clone()]])?;
        Some(Rect { x0: b.0 as i64, y0: b.1 as i64, x1: b.2 as i64, y1: b.3 as i64 })
    };
    let outers: Vec<Rect> = match o.iter().map(|p| p.first().and_then(rect_of)).collect::<Option<Vec<_>>>() {
        Some(v) => v,
        None => return false,
    };
    for i in 0..outers.len() {
        for j in i + 1..outers.len() {
            if meet(outers[i], outers[j]) > 1 {
                // allowed only if one lies strictly inside a hole of the other
                let inside_hole = |inner: Rect, host: &Poly| host[1..].iter().filter_map(rect_of).any(|h| h.x0 < inner.x0 && h.y0 < inner.y0 && inner.x1 < h.x1 && inner.y1 < h.y1);
                if !(inside_hole(outers[i], &o[j]) || inside_hole(outers[j], &o[i])) {
                    return false;
                }
            }
        }
    }
    true
}

/// One orthogonal "histogram" polygon (columns of different heights over a common base line), under a
/// random symmetry of the square, optionally with a rectangular hole in its base band. Simple by construction.
fn histogram(r: &mut Rng) -> (Poly, i64, i64) {
    let n = 2 + r.below(4) as usize;
    let mut xs = vec![0i64];
    let mut hs: Vec<i64> = Vec::new();
    for i in 0..n {
        xs.push(xs[i] + 1 + r.below(3) as i64);
        loop {
            let h = 2 + r.below(6) as i64;
            if hs.last() != Some(&h) {
                hs.push(h);
                break;
            }
        }
    }
    let w = xs[n];
    let mut pts: Vec<[i64; 2]> = vec![[0, 0], [w, 0]];
    for i in (0..n).rev() {
        pts.push([xs[i + 1], hs[i]]);
        pts.push([xs[i], hs[i]]);
    }
    let minh = *hs.iter().min().unwrap();
    let maxh = *hs.iter().max().unwrap();
    let mut rings: Vec<Vec<[i64; 2]>> = vec![pts];
    if w >= 3 && minh >= 3 && r.chance(1, 3) {
        let hx0 = 1 + r.below((w - 2) as u64) as i64;
        let hx1 = hx0 + 1 + r.below((w - 1 - hx0) as u64) as i64;
        let hy0 = 1 + r.below((minh - 2) as u64) as i64;
        let hy1 = hy0 + 1 + r.below((minh - 1 - hy0) as u64) as i64;
        rings.push(vec![[hx0, hy0], [hx1, hy0], [hx1, hy1], [hx0, hy1]]);
    }
    // symmetry of the square
    let (swap, nx, ny) = (r.chance(1, 2), r.chance(1, 2), r.chance(1, 2));
    let (bw, bh) = if swap { (maxh, w) } else { (w, maxh) };
    let poly: Poly = rings.into_iter().map(|ring| {
        let mut out: Ring = ring.into_iter().map(|p| {
            let (mut x, mut y) = if swap { (p[1], p[0]) } else { (p[0], p[1]) };
            if nx { x = bw - x; }
            if ny { y = bh - y; }
            [x as f64, y as f64]
        }).collect();
        if r.chance(1, 2) {
            out.reverse();
        }
        let k = r.below(out.len() as u64) as usize;
        out.rotate_left(k);
        let f = out[0];
        out.push(f);
        out
    }).collect();
    (poly, bw, bh)
}

/// 1..=3 orthogonal histogram polygons with pairwise disjoint (at most corner-touching) bounding boxes.
pub fn gen_ortho_operand(r: &mut Rng, g: i64) -> Operand {
    let want = 1 + r.below(3) as usize;
    let mut boxes: Vec<Rect> = Vec::new();
    let mut o = Operand::new();
    let mut tries = 0;
    while o.len() < want && tries < 40 {
        tries += 1;
        let (poly, bw, bh) = histogram(r);
        let x0 = r.below((g + 4) as u64) as i64;
        let y0 = r.below((g + 4) as u64) as i64;
        let q = Rect { x0, y0, x1: x0 + bw, y1: y0 + bh };
        if boxes.iter().all(|p| meet(*p, q) <= 1) {
            boxes.push(q);
            o.push(poly.iter().map(|ring| ring.iter().map(|c| [c[0] + x0 as f64, c[1] + y0 as f64]).collect()).collect());
        }
    }
    o
}

/// One octilinear part: an even-coordinate rectangle whose corners are cut at 45 degrees by even amounts
/// (up to a whole side: trapezoids, triangles). All edge directions are multiples of 45 degrees and all
/// coordinates even, so every intersection point between such edges is a lattice point.
fn chamfered(r: &mut Rng, g: i64) -> Ring {
    let w = 2 * (1 + r.below(6) as i64);
    let h = 2 * (1 + r.below(6) as i64);
    let x0 = 2 * r.below((g / 2 + 2) as u64) as i64;
    let y0 = 2 * r.below((g / 2 + 2) as u64) as i64;
    let m = w.min(h);
    let mut c = [0i64; 4]; // cuts at (x0,y0) (x1,y0) (x1,y1) (x0,y1)
    for ci in c.iter_mut() {
        *ci = if r.chance(1, 2) { 0 } else { 2 * r.below((m / 2 + 1) as u64) as i64 };
    }
    // neighbouring cuts must fit on their common side
    if c[0] + c[1] > w { c[1] = w - c[0]; }
    if c[3] + c[2] > w { c[2] = w - c[3]; }
    if c[1] + c[2] > h { c[2] = (h - c[1]).min(c[2]); }
    if c[0] + c[3] > h { c[3] = (h - c[0]).min(c[3]); }
    if c[3] + c[2] > w { c[2] = w - c[3]; }
    let (x1, y1) = (x0 + w, y0 + h);
    let raw = [
        [x0 + c[0], y0], [x1 - c[1], y0], [x1, y0 + c[1]], [x1, y1 - c[2]],
        [x1 - c[2], y1], [x0 + c[3], y1], [x0, y1 - c[3]], [x0, y0 + c[0]],
    ];
    let mut ring: Ring = Vec::new();
    for p in raw {
        let q = [p[0] as f64, p[1] as f64];
        if ring.last() != Some(&q) {
            ring.push(q);
        }
    }
    if ring.len() > 1 && ring[0] == ring[ring.len() - 1] {
        ring.pop();
    }
    if r.chance(1, 2) {
        ring.reverse();
    }
    let k = r.below(ring.len().max(1) as u64) as usize;
    ring.rotate_left(k);
    let f = ring[0];
    ring.push(f);
    ring
}

/// 1..=3 octilinear parts, valid as an operand (simple rings, parts apart — decided exactly).
pub fn gen_octi_operand(r: &mut Rng, g: i64) -> Operand {
    for _ in 0..30 {
        let n = 1 + r.below(3) as usize;
        let o: Operand = (0..n).map(|_| vec![chamfered(r, g)]).collect();
        if valid_simple_parts(&o) {
            return o;
        }
    }
    vec![vec![vec![[0.0, 0.0], [4.0, 0.0], [0.0, 4.0], [0.0, 0.0]]]]
}

/// Small lattice "star" polygons: vertices at integer points around a centre in angular order.
/// May be degenerate after rounding; only used where the oracle is equality of a call with itself.
pub fn gen_star_operand(r: &mut Rng, g: i64) -> Operand {
    let parts = 1 + r.below(2) as usize;
    let mut o = Operand::new();
    for _ in 0..parts {
        let k = 3 + r.below(5) as usize;
        let (cx, cy) = (r.below(g as u64 + 1) as f64, r.below(g as u64 + 1) as f64);
        let mut angs: Vec<f64> = (0..k).map(|_| r.below(3600) as f64 / 3600.0 * std::f64::consts::TAU).collect();
        angs.sort_by(|a, b| a.partial_cmp(b).unwrap());
        let mut ring: Ring = Vec::new();
        for a in angs {
            let rad = 1.0 + r.below(g as u64 / 2 + 1) as f64;
            let p = [(cx + rad * a.cos()).round(), (cy + rad * a.sin()).round()];
            if ring.last() != Some(&p) {
                ring.push(p);
            }
        }
        if ring.len() >= 3 {
            if r.chance(1, 2) {
                ring.reverse();
            }
            let k = r.below(ring.len() as u64) as usize;
            ring.rotate_left(k);
            let f = ring[0];
            ring.push(f);
            o.push(vec![ring]);
        }
    }
    if o.is_empty() {
        o.push(vec![vec![[0.0, 0.0], [3.0, 0.0], [0.0, 3.0], [0.0, 0.0]]]);
    }
    o
}

/// Convex-ish polygons with full-precision float coordinates (general position).
pub fn gen_float_operand(r: &mut Rng) -> Operand {
    let parts = 1 + r.below(2) as usize;
    let mut o = Operand::new();
    for _ in 0..parts {
        let k = 3 + r.below(6) as usize;
        let (cx, cy) = (unit(r) * 4.0, unit(r) * 4.0);
        let mut angs: Vec<f64> = (0..k).map(|_| unit(r) * std::f64::consts::TAU).collect();
        angs.sort_by(|a, b| a.partial_cmp(b).unwrap());
        let mut ring: Ring = angs.iter().map(|a| {
            let rad = 0.5 + unit(r) * 2.5;
            [cx + rad * a.cos(), cy + rad * a.sin()]
        }).collect();
        let f = ring[0];
        ring.push(f);
        o.push(vec![ring]);
    }
    o
}
fn unit(r: &mut Rng) -> f64 {
    (r.next() >> 11) as f64 / (1u64 << 53) as f64
}

pub fn translate(o: &Operand, dx: f64, dy: f64) -> Operand {
    o.iter().map(|p| p.iter().map(|r| r.iter().map(|c| [c[0] + dx, c[1] + dy]).collect()).collect()).collect()
}
/// translation that is exact in f64 for every vertex (None if any coordinate would be rounded)
pub fn translate_exact(o: &Operand, dx: f64, dy: f64) -> Option<Operand> {
    let t = translate(o, dx, dy);
    let ok = o.iter().flatten().flatten().zip(t.iter().flatten().flatten()).all(|(c, d)| d[0] - dx == c[0] && d[1] - dy == c[1] && d[0] - c[0] == dx && d[1] - c[1] == dy);
    if ok { Some(t) } else { None }
}

pub fn scale(o: &Operand, s: f64) -> Operand {
    o.iter().map(|p| p.iter().map(|r| r.iter().map(|c| [c[0] * s, c[1] * s]).collect()).collect()).collect()
}
/// (minx, miny, maxx, maxy) over all vertices, None when there are none
pub fn bbox(o: &Operand) -> Option<(f64, f64, f64, f64)> {
    let mut it = o.iter().flatten().flatten();
    let f = it.next()?;
    let mut b = (f[0], f[1], f[0], f[1]);
    for c in it {
        b = (b.0.min(c[0]), b.1.min(c[1]), b.2.max(c[0]), b.3.max(c[1]));
    }
    Some(b)
}

// ------------------------------------------------------------------ exact region comparison

fn ring_contains(ring: &Ring, x: f64, y: f64) -> bool {
    // crossing number; exact for axis-parallel rings and points off every edge line
    let mut inside = false;
    let n = ring.len();
    if n < 2 {
        return false;
    }
    for i in 0..n {
        let (a, b) = (ring[i], ring[(i + 1) % n]);
        if (a[1] > y) != (b[1] > y) {
            let xi = a[0] + (y - a[1]) * (b[0] - a[0]) / (b[1] - a[1]);
            if x < xi {
                inside = !inside;
            }
        }
    }
    inside
}

/// membership as the property reads a multipolygon: inside some polygon's exterior and outside all its holes
pub fn contains(o: &Operand, x: f64, y: f64) -> bool {
    o.iter().any(|p| !p.is_empty() && ring_contains(&p[0], x, y) && !p[1..].iter().any(|h| ring_contains(h, x, y)))
}

/// Compares two rectilinear regions exactly on the compressed grid of all their vertex
/// coordinates; returns a witness point of the symmetric difference.
pub fn region_diff(a: &Operand, b: &Operand) -> Option<(f64, f64)> {
    let mut xs: Vec<f64> = a.iter().chain(b.iter()).flatten().flatten().map(|c| c[0]).collect();
    let mut ys: Vec<f64> = a.iter().chain(b.iter()).flatten().flatten().map(|c| c[1]).collect();
    xs.sort_by(|p, q| p.partial_cmp(q).unwrap());
    xs.dedup();
    ys.sort_by(|p, q| p.partial_cmp(q).unwrap());
    ys.dedup();
    for i in 0..xs.len().saturating_sub(1) {
        let x = xs[i] + (xs[i + 1] - xs[i]) / 2.0;
        for j in 0..ys.len().saturating_sub(1) {
            let y = ys[j] + (ys[j + 1] - ys[j]) / 2.0;
            if contains(a, x, y) != contains(b, x, y) {
                return Some((x, y));
            }
        }
    }
    None
}

/// all rings read together by the even-odd rule (insensitive to how rings are grouped into polygons)
pub fn contains_evenodd(o: &Operand, x: f64, y: f64) -> bool {
    o.iter().flatten().filter(|r| ring_contains(r, x, y)).count() % 2 == 1
}

fn dist_to_seg(a: [f64; 2], b: [f64; 2], x: f64, y: f64) -> f64 {
    let (dx, dy) = (b[0] - a[0], b[1] - a[1]);
    let l2 = dx * dx + dy * dy;
    let t = if l2 == 0.0 { 0.0 } else { (((x - a[0]) * dx + (y - a[1]) * dy) / l2).clamp(0.0, 1.0) };
    let (px, py) = (a[0] + t * dx - x, a[1] + t * dy - y);
    (px * px + py * py).sqrt()
}

fn near_any_edge(os: &[&Operand], x: f64, y: f64, tol: f64) -> bool {
    os.iter().any(|o| o.iter().flatten().any(|r| r.windows(2).any(|w| dist_to_seg(w[0], w[1], x, y) <= tol)))
}

/// Witness points: centres of the cells of the compressed grid over all vertex coordinates of `os`.
/// For rectilinear regions every cell is uniformly inside or outside (exact); otherwise points within
/// `tol` of an edge are skipped (sampling: may miss a difference, cannot invent one).
fn witness_points(os: &[&Operand]) -> (Vec<(f64, f64)>, f64, bool) {
    let mut xs: Vec<f64> = os.iter().flat_map(|o| o.iter().flatten().flatten().map(|c| c[0])).filter(|v| v.is_finite()).collect();
    let mut ys: Vec<f64> = os.iter().flat_map(|o| o.iter().flatten().flatten().map(|c| c[1])).filter(|v| v.is_finite()).collect();
    xs.sort_by(|p, q| p.partial_cmp(q).unwrap());
    xs.dedup();
    ys.sort_by(|p, q| p.partial_cmp(q).unwrap());
    ys.dedup();
    let exact = os.iter().all(|o| is_rectilinear(o));
    let mag = xs.iter().chain(ys.iter()).fold(1.0f64, |m, v| m.max(v.abs()));
    let tol = if exact { 0.0 } else { 1e-7 * mag };
    let mut pts = Vec::new();
    for i in 0..xs.len().saturating_sub(1) {
        let x = xs[i] + (xs[i + 1] - xs[i]) / 2.0;
        for j in 0..ys.len().saturating_sub(1) {
            let y = ys[j] + (ys[j + 1] - ys[j]) / 2.0;
            if exact || !near_any_edge(os, x, y, tol) {
                pts.push((x, y));
            }
        }
    }
    (pts, tol, exact)
}

/// Region comparison of two results (polygon reading); exact when both are rectilinear, sampled otherwise.
pub fn region_diff_any(a: &Operand, b: &Operand) -> Option<(f64, f64)> {
    let (pts, _, _) = witness_points(&[a, b]);
    pts.into_iter().find(|(x, y)| contains(a, *x, *y) != contains(b, *x, *y))
}

/// Region comparison of two results with every ring read by the even-odd rule (ring grouping ignored).
pub fn region_diff_evenodd(a: &Operand, b: &Operand) -> Option<(f64, f64)> {
    let (pts, _, _) = witness_points(&[a, b]);
    pts.into_iter().find(|(x, y)| contains_evenodd(a, *x, *y) != contains_evenodd(b, *x, *y))
}

/// Small executable reference model of the Boolean operation itself: membership of witness points in the
/// operands combined by `op` (0 intersection, 1 union, 2 difference, 3 xor) against membership in the result,
/// the result's rings read by the even-odd rule. Used only where the differential reference is unavailable.
pub fn model_mismatch(a: &Operand, b: &Operand, op: u8, res: &Operand) -> Option<(f64, f64)> {
    let (pts, _, _) = witness_points(&[a, b, res]);
    pts.into_iter().find(|(x, y)| {
        let (ia, ib) = (contains(a, *x, *y), contains(b, *x, *y));
        let want = match op {
            0 => ia && ib,
            1 => ia || ib,
            2 => ia && !ib,
            _ => ia != ib,
        };
        contains_evenodd(res, *x, *y) != want
    })
}

/// no edge of `a` shares a point with an edge of `b` (exact for integer coordinates)
pub fn edges_apart(a: &Operand, b: &Operand) -> bool {
    for ra in a.iter().flatten() {
        for wa in ra.windows(2) {
            for rb in b.iter().flatten() {
                for wb in rb.windows(2) {
                    if segs_meet(wa[0], wa[1], wb[0], wb[1]) {
                        return false;
                    }
                }
            }
        }
    }
    true
}

pub fn is_rectilinear(o: &Operand) -> bool {
    o.iter().flatten().all(|r| r.windows(2).all(|w| w[0][0] == w[1][0] || w[0][1] == w[1][1]))
}

// ------------------------------------------------------------------ validity of integer operands (exact)

fn orient(a: [f64; 2], b: [f64; 2], c: [f64; 2]) -> i128 {
    let (ax, ay, bx, by, cx, cy) = (a[0] as i128, a[1] as i128, b[0] as i128, b[1] as i128, c[0] as i128, c[1] as i128);
    (bx - ax) * (cy - ay) - (by - ay) * (cx - ax)
}
fn on_seg(a: [f64; 2], b: [f64; 2], p: [f64; 2]) -> bool {
    orient(a, b, p) == 0 && p[0] >= a[0].min(b[0]) && p[0] <= a[0].max(b[0]) && p[1] >= a[1].min(b[1]) && p[1] <= a[1].max(b[1])
}
/// closed segments share at least one point (exact for integer coordinates)
fn segs_meet(a: [f64; 2], b: [f64; 2], c: [f64; 2], d: [f64; 2]) -> bool {
    let (o1, o2, o3, o4) = (orient(a, b, c).signum(), orient(a, b, d).signum(), orient(c, d, a).signum(), orient(c, d, b).signum());
    if o1 != o2 && o3 != o4 {
        return true;
    }
    on_seg(a, b, c) || on_seg(a, b, d) || on_seg(c, d, a) || on_seg(c, d, b)
}

/// Valid in the sense of the properties' quantifier, decided exactly for integer coordinates and
/// hole-free parts: every ring simple with non-zero area, distinct parts not even touching.
pub fn valid_simple_parts(o: &Operand) -> bool {
    if o.iter().flatten().flatten().any(|c| c[0].fract() != 0.0 || c[1].fract() != 0.0 || c[0].abs() > 1e9 || c[1].abs() > 1e9) {
        return false;
    }
    let mut all: Vec<(usize, Vec<([f64; 2], [f64; 2])>)> = Vec::new();
    for (pi, p) in o.iter().enumerate() {
        if p.len() != 1 {
            return false;
        }
        let r = &p[0];
        if r.len() < 4 || r[0] != r[r.len() - 1] {
            return false;
        }
        let n = r.len() - 1;
        let mut area2: i128 = 0;
        for i in 0..n {
            area2 += orient([0.0, 0.0], r[i], r[i + 1]);
            if r[i] == r[i + 1] {
                return false;
            }
        }
        if area2 == 0 {
            return false;
        }
        let segs: Vec<_> = (0..n).map(|i| (r[i], r[i + 1])).collect();
        for i in 0..n {
            // consecutive edges must not fold back
            let j = (i + 1) % n;
            if orient(segs[i].0, segs[i].1, segs[j].1) == 0 && !(on_seg(segs[i].0, segs[j].1, segs[i].1)) {
                return false;
            }
            for k in i + 2..n {
                if i == 0 && k == n - 1 {
                    continue;
                }
                if segs_meet(segs[i].0, segs[i].1, segs[k].0, segs[k].1) {
                    return false;
                }
            }
        }
        all.push((pi, segs));
    }
    for x in 0..all.len() {
        for y in x + 1..all.len() {
            for s in &all[x].1 {
                for t in &all[y].1 {
                    if segs_meet(s.0, s.1, t.0, t.1) {
                        return false;
                    }
                }
            }
            // containment of one part in the other
            let (a, b) = (&o[all[x].0][0], &o[all[y].0][0]);
            if ring_contains(a, b[0][0], b[0][1]) || ring_contains(b, a[0][0], a[0][1]) {
                return false;
            }
        }
    }
    true
}

/// lattice stars filtered to valid operands (simple rings, disjoint parts)
pub fn gen_valid_star_operand(r: &mut Rng, g: i64) -> Operand {
    for _ in 0..40 {
        let o = gen_star_operand(r, g);
        if valid_simple_parts(&o) {
            return o;
        }
    }
    vec![vec![vec![[0.0, 0.0], [3.0, 0.0], [0.0, 3.0], [0.0, 0.0]]]]
}
