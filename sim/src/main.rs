//! `sim` — deterministic simulator for geo-booleanop (see /verif/DESIGN.md).
mod batch;
mod c09;
mod c12;
mod c17;
mod c18;
mod geom;
mod heap;
mod miri;
mod rng;
mod sched;
mod simhooks;

use batch::{Extra, Plan, Tier, World};
use serde_json::{json, Map, Value};

#[global_allocator]
static GLOBAL: heap::SimHeap = heap::SimHeap;

fn usage() -> i32 {
    eprintln!("usage: sim <C09|C12|C17|C18> <quick|thorough> | sim replay <file> | sim worker <prop> ...");
    2
}

fn silence_panics() {
    std::panic::set_hook(Box::new(|_| {}));
}

fn plan_c17(tier: Tier) -> (Plan, Extra) {
    let workers = batch::workers_default();
    let plan = match tier {
        Tier::Quick => Plan { runs: 400_000, budget_s: 150.0, selftest_runs: 2000, workers },
        Tier::Thorough => Plan { runs: 40_000_000, budget_s: 1500.0, selftest_runs: 20000, workers },
    };
    let mut coverage = Map::new();
    coverage.insert("components".into(), json!({
        "real": ["geo_booleanop::splay::{SplayTree,SplaySet,IntoIter} (all of lib/src/splay)"],
        "simulated": ["heap (seeded arena: placement, fill, poison-on-free)", "comparator and element types (instrumented)", "the caller (seeded operation history, held references, cancellation of consumption, thread migration)"],
        "stubbed": []}));
    coverage.insert("fault_kinds".into(), json!(["heap placement/fill/poison", "cancelled consumption (iterator dropped after j items)", "thread migration"]));
    let extra = Extra {
        coverage,
        assumptions: vec![
            "comparator is a consistent total order (seeded permutation of the key universe)".into(),
            "seeded sampling of histories, not exhaustive enumeration".into(),
        ],
        rule: "one evaluation = one seeded operation history (1-400 ops) on a fresh SplayTree or SplaySet checked op by op against BTreeMap; distinct_nontrivial = distinct (container kind, comparator permutation, operation sequence) hashes among histories with >= 4 operations; distinct_secondary_measure = distinct Debug renderings (shape + key set) reached over universes <= 6 keys".into(),
        level: "exploration",
        extra_violations: 0,
        extra_evaluations: 0,
    };
    (plan, extra)
}

fn plan_c09(tier: Tier) -> (Plan, Extra) {
    let workers = batch::workers_default();
    let plan = match tier {
        Tier::Quick => Plan { runs: 1_000_000, budget_s: 120.0, selftest_runs: 2000, workers },
        Tier::Thorough => Plan { runs: 20_000_000, budget_s: 3000.0, selftest_runs: 20000, workers },
    };
    let mut coverage = Map::new();
    coverage.insert("components".into(), json!({
        "real": ["geo_booleanop::boolean (all four BooleanOp impls, f64 and f32, whole pipeline)", "geo_booleanop::splay", "geo-types", "robust"],
        "simulated": ["the two fast-path decisions (buggify switches through the verif-hooks seam)", "event budget"],
        "stubbed": []}));
    coverage.insert("fault_kinds".into(), json!(["fast path disabled: bounding-box shortcut", "fast path disabled: early sweep exit", "handler absent (hooks inert)"]));
    let extra = Extra {
        coverage,
        assumptions: vec![
            "second clause of C09 only; operands from the exact rectilinear integer family (rectangles with rectangular holes, parts touching at corners at most), exact offsets and power-of-two scales".into(),
            "region equality is decided exactly on the compressed grid of result coordinates; bit identity is demanded where both executions share the instruction prefix".into(),
        ],
        rule: "one evaluation = one operand pair, each selected operation executed under 5 configurations (both fast paths off = reference; early exit on; shortcut on; both on; no handler) and compared; distinct_nontrivial = distinct tuples (operation, trait pairing, float type, placement kind/side/gap, which fast paths fired per configuration, result empty?)".into(),
        level: "exploration",
        extra_violations: 0,
        extra_evaluations: 0,
    };
    (plan, extra)
}

fn plan_c12(tier: Tier) -> (Plan, Extra) {
    let workers = batch::workers_default();
    let plan = match tier {
        Tier::Quick => Plan { runs: 60_000, budget_s: 150.0, selftest_runs: 1500, workers },
        Tier::Thorough => Plan { runs: 10_000_000, budget_s: 3000.0, selftest_runs: 20000, workers },
    };
    let mut coverage = Map::new();
    coverage.insert("components".into(), json!({
        "real": ["geo_booleanop::boolean (all four BooleanOp impls, f64 and f32)", "geo_booleanop::splay", "geo-types", "robust", "std collections (BinaryHeap, HashSet, Rc)"],
        "simulated": ["caller threads (real OS threads, one runnable at a time, seeded baton scheduler; scheduling points at call boundaries and at every sweep event)",
            "heap (seeded arena: placement order, fill, poison-on-free, reallocation always moves)", "OS randomness (getrandom interposed: per-thread hash keys from the seed)",
            "cancellation (panic injected at the k-th sweep event)", "thread churn (retire: the rest of a script continues on a fresh OS thread)"],
        "stubbed": []}));
    coverage.insert("fault_kinds".into(), json!(["heap placement/fill/poison", "hash keys", "call history on the same thread", "thread placement and churn", "event-level overlap with other clients' calls", "cancellation inside the sweep", "operands passed as short-lived temporaries (address reuse)"]));
    let extra = Extra {
        coverage,
        assumptions: vec![
            "one simulated client runs at any instant (interleaving semantics at call and sweep-event granularity); instruction-level preemption and data races are covered only by the Miri engine on tiny inputs".into(),
            "reference = the same call evaluated in isolation on the harness thread before any client starts".into(),
        ],
        rule: "one evaluation = one world: a pool of 2-6 shared operands, 1-4 client scripts of 1-12 steps (calls through all trait pairings, results fed back, cancellations, thread retirement), a seeded schedule; every completed call is compared bit for bit with its isolated reference and every operand image is re-checked after every call; distinct_nontrivial = distinct schedule strings among worlds with at least one context switch; distinct_secondary_measure = distinct tuples (operation, pairing, float, heap policy, fresh thread?, after cancellation?, temporaries?, other calls in flight, completed?)".into(),
        level: "exploration",
        extra_violations: 0,
        extra_evaluations: 0,
    };
    (plan, extra)
}

fn plan_c18(tier: Tier) -> (Plan, Extra) {
    let workers = batch::workers_default().min(12);
    let g = c18::grid_len(tier);
    let plan = match tier {
        Tier::Quick => Plan { runs: g + 100, budget_s: 200.0, selftest_runs: 12, workers },
        Tier::Thorough => Plan { runs: g + 15000, budget_s: 3000.0, selftest_runs: 40, workers },
    };
    let mut coverage = Map::new();
    coverage.insert("components".into(), json!({
        "real": ["geo_booleanop::splay (SplayTree, SplaySet, IntoIter)", "geo_booleanop::boolean (whole operation, for the comb scenarios)"],
        "simulated": ["stack budget of the calling thread (8 MiB and 2 MiB)", "the history that shapes the tree", "process crash containment (child process per scenario)", "comparator / element drop callbacks (stack probe)"],
        "stubbed": []}));
    coverage.insert("fault_kinds".into(), json!(["stack budget (resource exhaustion)", "cancelled consumption (iterator dropped after j items)"]));
    coverage.insert("grid_scenarios".into(), json!(g));
    let extra = Extra {
        coverage,
        assumptions: vec![
            "stack budgets are the two the property names (8 MiB, 2 MiB); optimised build of the harness".into(),
            "an O(log n) recursion would pass: only exhaustion (signal, or probe within 64 KiB of the budget) is a violation".into(),
        ],
        rule: "one evaluation = one child process running one scenario (container kind, insertion-order shape, size, optional restructuring, teardown mode, stack budget) or one Boolean operation on a comb polygon whose sweep stops early; the first grid_scenarios indices are a fixed full-scale grid, the rest are seeded; distinct_nontrivial = distinct (kind, shape, teardown, budget, restructuring, size decade) tuples, all with >= 1e5 keys or >= 8e4 edges".into(),
        level: "fault_enumeration",
        extra_violations: 0,
        extra_evaluations: 0,
    };
    (plan, extra)
}

fn main() {
    // the main thread takes its std hash keys now, so that no world's count of answered getrandom calls includes them
    std::hint::black_box(std::collections::hash_map::RandomState::new());
    let args: Vec<String> = std::env::args().collect();
    if args.len() < 3 {
        std::process::exit(usage());
    }
    let code = match args[1].as_str() {
        "worker" => {
            silence_panics();
            match args[2].as_str() {
                "C09" => batch::worker_main::<c09::C09World>(&args[3..]),
                "C12" => batch::worker_main::<c12::C12World>(&args[3..]),
                "C17" => batch::worker_main::<c17::C17World>(&args[3..]),
                "C18" => batch::worker_main::<c18::C18World>(&args[3..]),
                _ => usage(),
            }
        }
        "stack-child" => c18::child_main(&args[2]),
        "oneworld" => {
            silence_panics();
            let v: Value = std::fs::read_to_string(&args[2]).ok().and_then(|t| serde_json::from_str(&t).ok()).unwrap_or(Value::Null);
            match v["property"].as_str() {
                Some("C09") => batch::oneworld_main::<c09::C09World>(&v),
                Some("C12") => batch::oneworld_main::<c12::C12World>(&v),
                Some("C17") => batch::oneworld_main::<c17::C17World>(&v),
                Some("C18") => batch::oneworld_main::<c18::C18World>(&v),
                _ => 2,
            }
        }
        "prefix" => {
            silence_panics();
            match args[2].as_str() {
                "C09" => batch::prefix_main::<c09::C09World>(&args[3..]),
                "C12" => batch::prefix_main::<c12::C12World>(&args[3..]),
                "C17" => batch::prefix_main::<c17::C17World>(&args[3..]),
                "C18" => batch::prefix_main::<c18::C18World>(&args[3..]),
                _ => usage(),
            }
        }
        "one" => {
            silence_panics();
            match args[2].as_str() {
                "C09" => batch::one_main::<c09::C09World>(&args[3..]),
                "C12" => batch::one_main::<c12::C12World>(&args[3..]),
                "C17" => batch::one_main::<c17::C17World>(&args[3..]),
                "C18" => batch::one_main::<c18::C18World>(&args[3..]),
                _ => usage(),
            }
        }
        "replay" if args.get(3).map(|s| s.as_str()) != Some("--inproc") => {
            // run the replay in a child, so that a world that kills its process is reported, not suffered
            use std::os::unix::process::ExitStatusExt;
            let st = std::process::Command::new(std::env::current_exe().expect("exe")).arg("replay").arg(&args[2]).arg("--inproc").status();
            match st {
                Ok(s) if s.code() == Some(5) => {
                    println!("violation class=call_never_returns detail=a simulated client kept computing for 15 s without reaching any scheduling point");
                    println!("VIOLATION property=C12 replay=(this file)");
                    1
                }
                Ok(s) if s.signal().is_some() => {
                    println!("violation class=crash_in_code_under_test detail=the process replaying this world is killed by signal {}", s.signal().unwrap());
                    println!("VIOLATION property=(see file) replay=(this file)");
                    1
                }
                Ok(s) => s.code().unwrap_or(2),
                Err(_) => 2,
            }
        }
        "replay" => {
            silence_panics();
            let text = match std::fs::read_to_string(&args[2]) {
                Ok(t) => t,
                Err(e) => {
                    println!("HARNESS-ERROR cannot read {}: {}", args[2], e);
                    std::process::exit(2);
                }
            };
            let v: Value = serde_json::from_str(&text).unwrap_or(Value::Null);
            if v["engine"] == "miri" {
                std::process::exit(miri::replay(&v));
            }
            match v["property"].as_str() {
                Some("C09") => batch::replay_main::<c09::C09World>(&v),
                Some("C12") => batch::replay_main::<c12::C12World>(&v),
                Some("C17") => batch::replay_main::<c17::C17World>(&v),
                Some("C18") => batch::replay_main::<c18::C18World>(&v),
                _ => {
                    println!("HARNESS-ERROR replay file names no known property");
                    2
                }
            }
        }
        prop => {
            let tier = if args[2] == "thorough" { Tier::Thorough } else { Tier::Quick };
            match prop {
                "C17" => {
                    let (plan, mut extra) = plan_c17(tier);
                    let rep = miri::run("C17", "c17", batch::env_seed(), if tier == Tier::Quick { 32 } else { 1024 });
                    extra.coverage.insert("miri_engine".into(), rep.json);
                    extra.extra_violations = rep.violations;
                    extra.extra_evaluations = rep.executions;
                    batch::parent_main::<c17::C17World>(tier, plan, extra)
                }
                "C09" => {
                    let (plan, extra) = plan_c09(tier);
                    batch::parent_main::<c09::C09World>(tier, plan, extra)
                }
                "C12" => {
                    let (plan, mut extra) = plan_c12(tier);
                    let rep = miri::run("C12", "c12", batch::env_seed(), if tier == Tier::Quick { 16 } else { 512 });
                    extra.coverage.insert("miri_engine".into(), rep.json);
                    extra.extra_violations = rep.violations;
                    extra.extra_evaluations = rep.executions;
                    batch::parent_main::<c12::C12World>(tier, plan, extra)
                }
                "C18" => {
                    let (plan, extra) = plan_c18(tier);
                    batch::parent_main::<c18::C18World>(tier, plan, extra)
                }
                _ => usage(),
            }
        }
    };
    let _ = c17::C17World::PROP;
    std::process::exit(code);
}
