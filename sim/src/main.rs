//! `sim` — deterministic simulator for geo-booleanop (see /verif/DESIGN.md).
mod batch;
mod c17;
mod c18;
mod heap;
mod rng;

use batch::{Extra, Plan, Tier, World};
use serde_json::{json, Map, Value};

#[global_allocator]
static GLOBAL: heap::SimHeap = heap::SimHeap;

fn usage() -> i32 {
    eprintln!("usage: sim <C09|C12|C17|C18> <quick|thorough> | sim replay <file> | sim worker <prop> ...");
    2
}

fn silence_panics() {
    std::panic::set_hook(Box::new(|_| {}));
}

fn plan_c17(tier: Tier) -> (Plan, Extra) {
    let workers = batch::workers_default();
    let plan = match tier {
        Tier::Quick => Plan { runs: 400_000, budget_s: 60.0, selftest_runs: 2000, workers },
        Tier::Thorough => Plan { runs: 40_000_000, budget_s: 1500.0, selftest_runs: 20000, workers },
    };
    let mut coverage = Map::new();
    coverage.insert("components".into(), json!({
        "real": ["geo_booleanop::splay::{SplayTree,SplaySet,IntoIter} (all of lib/src/splay)"],
        "simulated": ["heap (seeded arena: placement, fill, poison-on-free)", "comparator and element types (instrumented)", "the caller (seeded operation history, held references, cancellation of consumption, thread migration)"],
        "stubbed": []}));
    coverage.insert("fault_kinds".into(), json!(["heap placement/fill/poison", "cancelled consumption (iterator dropped after j items)", "thread migration"]));
    let extra = Extra {
        coverage,
        assumptions: vec![
            "comparator is a consistent total order (seeded permutation of the key universe)".into(),
            "seeded sampling of histories, not exhaustive enumeration".into(),
        ],
        rule: "one evaluation = one seeded operation history (1-400 ops) on a fresh SplayTree or SplaySet checked op by op against BTreeMap; distinct_nontrivial = distinct (container kind, comparator permutation, operation sequence) hashes among histories with >= 4 operations; distinct_secondary_measure = distinct Debug renderings (shape + key set) reached over universes <= 6 keys".into(),
        level: "exploration",
        extra_violations: 0,
        extra_evaluations: 0,
    };
    (plan, extra)
}

fn plan_c18(tier: Tier) -> (Plan, Extra) {
    let workers = batch::workers_default().min(12);
    let g = c18::grid_len(tier);
    let plan = match tier {
        Tier::Quick => Plan { runs: g + 100, budget_s: 200.0, selftest_runs: 12, workers },
        Tier::Thorough => Plan { runs: g + 1500, budget_s: 3000.0, selftest_runs: 40, workers },
    };
    let mut coverage = Map::new();
    coverage.insert("components".into(), json!({
        "real": ["geo_booleanop::splay (SplayTree, SplaySet, IntoIter)", "geo_booleanop::boolean (whole operation, for the comb scenarios)"],
        "simulated": ["stack budget of the calling thread (8 MiB and 2 MiB)", "the history that shapes the tree", "process crash containment (child process per scenario)", "comparator / element drop callbacks (stack probe)"],
        "stubbed": []}));
    coverage.insert("fault_kinds".into(), json!(["stack budget (resource exhaustion)", "cancelled consumption (iterator dropped after j items)"]));
    coverage.insert("grid_scenarios".into(), json!(g));
    let extra = Extra {
        coverage,
        assumptions: vec![
            "stack budgets are the two the property names (8 MiB, 2 MiB); optimised build of the harness".into(),
            "an O(log n) recursion would pass: only exhaustion (signal, or probe within 64 KiB of the budget) is a violation".into(),
        ],
        rule: "one evaluation = one child process running one scenario (container kind, insertion-order shape, size, optional restructuring, teardown mode, stack budget) or one Boolean operation on a comb polygon whose sweep stops early; the first grid_scenarios indices are a fixed full-scale grid, the rest are seeded; distinct_nontrivial = distinct (kind, shape, teardown, budget, restructuring, size decade) tuples, all with >= 1e5 keys or >= 8e4 edges".into(),
        level: "fault_enumeration",
        extra_violations: 0,
        extra_evaluations: 0,
    };
    (plan, extra)
}

fn main() {
    let args: Vec<String> = std::env::args().collect();
    if args.len() < 3 {
        std::process::exit(usage());
    }
    let code = match args[1].as_str() {
        "worker" => {
            silence_panics();
            match args[2].as_str() {
                "C17" => batch::worker_main::<c17::C17World>(&args[3..]),
                "C18" => batch::worker_main::<c18::C18World>(&args[3..]),
                _ => usage(),
            }
        }
        "stack-child" => c18::child_main(&args[2]),
        "replay" => {
            silence_panics();
            let text = match std::fs::read_to_string(&args[2]) {
                Ok(t) => t,
                Err(e) => {
                    println!("HARNESS-ERROR cannot read {}: {}", args[2], e);
                    std::process::exit(2);
                }
            };
            let v: Value = serde_json::from_str(&text).unwrap_or(Value::Null);
            match v["property"].as_str() {
                Some("C17") => batch::replay_main::<c17::C17World>(&v),
                Some("C18") => batch::replay_main::<c18::C18World>(&v),
                _ => {
                    println!("HARNESS-ERROR replay file names no known property");
                    2
                }
            }
        }
        prop => {
            let tier = if args[2] == "thorough" { Tier::Thorough } else { Tier::Quick };
            match prop {
                "C17" => {
                    let (plan, extra) = plan_c17(tier);
                    batch::parent_main::<c17::C17World>(tier, plan, extra)
                }
                "C18" => {
                    let (plan, extra) = plan_c18(tier);
                    batch::parent_main::<c18::C18World>(tier, plan, extra)
                }
                _ => usage(),
            }
        }
    };
    let _ = c17::C17World::PROP;
    std::process::exit(code);
}
